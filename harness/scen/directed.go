package scen

import (
	"fmt"
	"math/rand"
	"sort"
	"strings"
	"sync"
	"sync/atomic"
	"time"

	"verif/harness/mon"
	"verif/harness/shim"
	"verif/harness/simnet"
)

// ---------------------------------------------------------------- helpers for directed scenarios (W2)

func (x *Ctx) WaitFor(d time.Duration, cond func() bool) bool {
	dl := time.Now().Add(d)
	for time.Now().Before(dl) {
		if cond() {
			return true
		}
		time.Sleep(time.Millisecond)
	}
	return cond()
}

var opSeq struct {
	sync.Mutex
	n int
}

func nextOp(prefix string) string {
	opSeq.Lock()
	defer opSeq.Unlock()
	opSeq.n++
	return fmt.Sprintf("%s.%d", prefix, opSeq.n)
}

// Writes submits n writes sequentially to a node; returns how many were acknowledged.
func (x *Ctx) Writes(client int, node string, n int, timeout time.Duration) int {
	ok := 0
	for i := 0; i < n; i++ {
		op := x.C.Submit(client, nextOp(fmt.Sprintf("w%d", client)), "W", node, timeout, 0)
		if op != nil && op.Outcome == "ok" {
			ok++
		}
	}
	return ok
}

// WritesAsync submits n writes concurrently (one goroutine each) and returns a wait function.
func (x *Ctx) WritesAsync(client int, node string, n int, timeout time.Duration) func() {
	var wg sync.WaitGroup
	for i := 0; i < n; i++ {
		wg.Add(1)
		id := nextOp(fmt.Sprintf("w%d", client))
		go func() {
			defer wg.Done()
			x.C.Submit(client, id, "W", node, timeout, 0)
		}()
	}
	return wg.Wait
}

func (x *Ctx) others(id string) []string { return minus(x.C.IDs(), []string{id}) }

// startStatic starts n voters and waits for a leader.
func (x *Ctx) startStatic(n int) (all []string, leader string, ok bool) {
	all = ids(n)
	if !x.StartCluster(all) {
		return all, "", false
	}
	leader = x.C.WaitLeader(5 * time.Second)
	if leader == "" {
		x.Inconclusive("no initial leader")
		return all, "", false
	}
	return all, leader, true
}

func (x *Ctx) finishDirected() {
	if !x.Quiesce(15 * time.Second) {
		x.Note("no convergence within the quiesce bound")
		x.NT("no-convergence")
	} else if !x.FinalWrite(5 * time.Second) {
		x.Note("final write not acknowledged")
	}
}

// ---------------------------------------------------------------- takeover: divergent tails (C01 C03 C06 C07)

func scenTakeover(x *Ctx) {
	r := x.R
	n := []int{3, 3, 5}[r.Intn(3)]
	all, l1, ok := x.startStatic(n)
	if !ok {
		return
	}
	x.Writes(1, l1, 2+r.Intn(4), time.Second)
	// L1 keeps a minority
	keep := 0
	if n == 5 {
		keep = r.Intn(2)
	}
	minority := append([]string{l1}, subset(r, x.others(l1), keep)...)
	majority := minus(all, minority)
	x.Step("partition %v | %v", minority, majority)
	x.C.Net.Partition(minority, majority)
	// uncommitted tail on L1 (and its minority)
	wait1 := x.WritesAsync(2, l1, 1+r.Intn(6), time.Duration(20+r.Intn(200))*time.Millisecond)
	l2 := x.C.WaitLeaderAmong(majority, 5*time.Second)
	if l2 == "" {
		x.Inconclusive("majority side elected no leader")
		wait1()
		return
	}
	x.Step("new leader %s", l2)
	x.Writes(3, l2, 1+r.Intn(6), time.Second)
	wait1()
	switch r.Intn(4) {
	case 0:
		x.Step("crash old leader %s and restart", l1)
		x.C.Node(l1).Crash("takeover")
		x.C.Node(l1).WaitDown(time.Second)
		x.C.Node(l1).Restart()
	case 1:
		// let the old leader's side time out and campaign before it returns
		x.Step("old side waits %v", 3*x.ET())
		time.Sleep(3 * x.ET())
	case 2:
		// crash the new leader right when the old one returns: the old leader's long-but-old log competes
		x.Step("crash new leader %s at heal", l2)
		x.C.Node(l2).Crash("takeover")
	}
	x.Step("heal")
	x.C.Net.Heal()
	time.Sleep(time.Duration(1+r.Intn(4)) * x.ET())
	if l := x.C.Leader(); l != "" {
		x.Writes(4, l, 2, time.Second)
	}
	x.finishDirected()
}

// ---------------------------------------------------------------- figure-8 style (C01 C07): 5 nodes, alternating leaders with partial replication and crashes

func scenFigure8(x *Ctx) {
	r := x.R
	all, l, ok := x.startStatic(5)
	if !ok {
		return
	}
	x.Writes(1, l, 2, time.Second)
	for round := 0; round < 3+r.Intn(3); round++ {
		l = x.C.WaitLeader(3 * time.Second)
		if l == "" {
			break
		}
		// replicate the next entries to exactly one follower, then crash the leader
		f := pick(r, x.others(l))
		rest := minus(all, []string{l, f})
		x.Step("round %d: leader %s reaches only %s", round, l, f)
		x.C.Net.Partition([]string{l, f}, rest)
		w := x.WritesAsync(10+round, l, 1+r.Intn(3), 60*time.Millisecond)
		time.Sleep(time.Duration(5+r.Intn(20)) * time.Millisecond)
		x.Step("crash %s", l)
		x.C.Node(l).Crash("figure8")
		w()
		x.C.Net.Heal()
		// restart some previously crashed node so that a majority stays available
		for _, id := range all {
			if !x.C.Node(id).IsUp() && id != l && r.Intn(2) == 0 {
				x.C.Node(id).WaitDown(time.Second)
				x.Step("restart %s", id)
				x.C.Node(id).Restart()
			}
		}
		if len(x.C.UpIDs()) < 3 {
			for _, id := range all {
				if !x.C.Node(id).IsUp() && len(x.C.UpIDs()) < 3 {
					x.C.Node(id).WaitDown(time.Second)
					x.Step("restart %s", id)
					x.C.Node(id).Restart()
				}
			}
		}
		if nl := x.C.WaitLeader(3 * time.Second); nl != "" && r.Intn(2) == 0 {
			x.Writes(20+round, nl, 1, 500*time.Millisecond)
		}
	}
	x.finishDirected()
}

// ---------------------------------------------------------------- exactly half (C04 a)

func scenExactHalf(x *Ctx) {
	r := x.R
	n := []int{2, 4}[r.Intn(2)]
	all, l, ok := x.startStatic(n)
	if !ok {
		return
	}
	x.Writes(1, l, 2, time.Second)
	side := append([]string{l}, subset(r, x.others(l), n/2-1)...)
	other := minus(all, side)
	x.Step("split %v | %v", side, other)
	x.C.Net.Partition(side, other)
	// nothing may be acknowledged on either side
	w := x.WritesAsync(2, l, 3+r.Intn(4), 150*time.Millisecond)
	w2 := x.WritesAsync(3, other[0], 2, 150*time.Millisecond)
	w()
	w2()
	// a second leader can only appear if exactly half counts as a majority; if it does, both sides write
	if l2 := x.C.WaitLeaderAmong(other, 4*x.ET()); l2 != "" {
		x.Note("second leader %s on the other half", l2)
		wa := x.WritesAsync(4, l2, 3, 300*time.Millisecond)
		x.Writes(5, l, 3, 300*time.Millisecond)
		wa()
	}
	if r.Intn(2) == 0 {
		x.Step("crash leader %s", l)
		x.C.Node(l).Crash("exact-half")
		x.C.Node(l).WaitDown(time.Second)
		x.C.Node(l).Restart()
	}
	x.Step("heal")
	x.C.Net.Heal()
	x.finishDirected()
}

// ---------------------------------------------------------------- ack then lose the leader (C04 b)

func scenAckLoseLeader(x *Ctx) {
	r := x.R
	n := 3 + 2*r.Intn(2)
	all, _, ok := x.startStatic(n)
	if !ok {
		return
	}
	for round := 0; round < 4; round++ {
		l := x.C.WaitLeader(3 * time.Second)
		if l == "" {
			break
		}
		if x.Writes(1, l, 1+r.Intn(3), time.Second) == 0 {
			continue
		}
		// every ack is immediately followed by a crash of the leader; only the others stay
		x.Step("crash leader %s right after the acknowledgement", l)
		x.C.Node(l).Crash("ack-then-crash")
		x.C.Node(l).WaitDown(time.Second)
		if r.Intn(2) == 0 {
			// crash everybody and restart only a majority that excludes the old leader
			x.Step("crash all")
			for _, id := range x.C.UpIDs() {
				x.C.Node(id).Crash("all")
			}
			for _, id := range all {
				x.C.Node(id).WaitDown(time.Second)
			}
			sub := subset(r, minus(all, []string{l}), n/2+1)
			x.Step("restart %v", sub)
			for _, id := range sub {
				x.C.Node(id).Restart()
			}
		}
		nl := x.C.WaitLeader(4 * time.Second)
		if nl != "" {
			x.Writes(2, nl, 1, time.Second)
		}
		for _, id := range all {
			if !x.C.Node(id).IsUp() {
				x.C.Node(id).WaitDown(time.Second)
				x.C.Node(id).Restart()
			}
		}
	}
	x.finishDirected()
}

// ---------------------------------------------------------------- elections under stress (C02 C08)

func scenVotes(x *Ctx) {
	r := x.R
	n := 2 + r.Intn(4)
	all, _, ok := x.startStatic(n)
	if !ok {
		return
	}
	x.StartClients(2, ClientMix{WritePct: 100, Timeouts: []time.Duration{30 * time.Millisecond, 200 * time.Millisecond}, ThinkMaxUs: 5000, LeaderBias: 80})
	for round := 0; round < 5+r.Intn(4); round++ {
		l := x.C.WaitLeader(3 * time.Second)
		// slow, lossy, duplicating vote traffic so that candidacies overlap and replies arrive late
		delay := 1000 + r.Intn(int(x.ET()/time.Microsecond))
		x.Step("round %d: noise delay<=%dus", round, delay)
		for _, a := range all {
			for _, b := range all {
				if a != b {
					x.C.Net.SetLink(a, b, func(lk *simnet.Link) { lk.DelayMaxUs, lk.DupPct, lk.LossPct, lk.RepLossPct = delay, 25, 10, 10 })
				}
			}
		}
		// a voter dies right after persisting its vote, before the reply exists, and comes back in the same term
		if up := x.C.UpIDs(); len(up) > 0 {
			v := pick(r, up)
			x.Step("plan crash %s after state.set", v)
			x.C.Node(v).PlanCrash(&shim.CrashPlan{Op: "state.set", Nth: 1 + r.Intn(2), After: true})
		}
		if l != "" {
			if r.Intn(2) == 0 {
				x.Step("isolate leader %s", l)
				x.C.Net.Partition([]string{l}, x.others(l))
			} else {
				x.Step("crash leader %s", l)
				x.C.Node(l).Crash("votes")
			}
		}
		time.Sleep(time.Duration(2+r.Intn(4)) * x.ET())
		for _, id := range all {
			if !x.C.Node(id).IsUp() {
				x.C.Node(id).WaitDown(time.Second)
				x.Step("restart %s", id)
				x.C.Node(id).Restart()
			}
		}
		if r.Intn(2) == 0 {
			x.Step("heal")
			x.C.Net.Heal()
		}
	}
	x.finishDirected()
}

// ---------------------------------------------------------------- in-process Stop/Restart with pending futures (C03)

func scenBounce(x *Ctx) {
	r := x.R
	all, l, ok := x.startStatic(3)
	if !ok {
		return
	}
	_ = all
	x.Writes(1, l, 2, time.Second)
	x.Step("isolate leader %s", l)
	x.C.Net.Partition([]string{l}, x.others(l))
	// operations accepted by the isolated leader stay pending; their clients keep waiting
	w := x.WritesAsync(2, l, 1+r.Intn(3), 3*time.Second)
	time.Sleep(time.Duration(5+r.Intn(15)) * time.Millisecond)
	x.Step("bounce %s (Stop + Restart on the same object)", l)
	if err := x.C.Node(l).Bounce(); err != nil {
		x.M.AddViolation(mon.Violation{Props: []string{"C18"}, Sig: "restart-error", Node: l, Msg: fmt.Sprintf("Restart() after Stop() returned %v", err)})
	}
	l2 := x.C.WaitLeaderAmong(x.others(l), 5*time.Second)
	if l2 != "" {
		x.Writes(3, l2, 2+r.Intn(3), time.Second)
	}
	x.Step("heal")
	x.C.Net.Heal()
	if l2 != "" {
		x.Writes(4, l2, 2, time.Second)
	}
	w()
	x.finishDirected()
}

// ---------------------------------------------------------------- deposed leader with pending futures (C03 a,b,c)

func scenDeposed(x *Ctx) {
	r := x.R
	all, l, ok := x.startStatic(3 + 2*r.Intn(2))
	if !ok {
		return
	}
	_ = all
	x.Writes(1, l, 2, time.Second)
	x.Step("isolate leader %s", l)
	x.C.Net.Partition([]string{l}, x.others(l))
	short := x.WritesAsync(2, l, 1+r.Intn(2), 40*time.Millisecond) // time out at the client, may commit later
	long := x.WritesAsync(5, l, 1+r.Intn(3), 3*time.Second)        // pending when deposed
	l2 := x.C.WaitLeaderAmong(x.others(l), 5*time.Second)
	if l2 != "" {
		x.Writes(3, l2, 2+r.Intn(3), time.Second)
	}
	short()
	if r.Intn(2) == 0 && l2 != "" {
		// the same node loses and regains leadership: cut the new leader off, heal the old one
		x.Step("heal, then isolate %s", l2)
		x.C.Net.Heal()
		x.C.Net.Partition([]string{l2}, x.others(l2))
		w := x.WritesAsync(6, l2, 2, 2*time.Second)
		if l3 := x.C.WaitLeaderAmong(x.others(l2), 5*time.Second); l3 != "" {
			x.Writes(7, l3, 2, time.Second)
		}
		x.C.Net.Heal()
		w()
	} else {
		x.Step("heal")
		x.C.Net.Heal()
	}
	long()
	x.finishDirected()
}

func init() {
	Registry["w2.takeover"] = scenTakeover
	Registry["w2.figure8"] = scenFigure8
	Registry["w2.exacthalf"] = scenExactHalf
	Registry["w2.acklose"] = scenAckLoseLeader
	Registry["w2.votes"] = scenVotes
	Registry["w2.bounce"] = scenBounce
	Registry["w2.deposed"] = scenDeposed
}

// ---------------------------------------------------------------- reads (C05, C17)

// addServer starts a fresh node and adds it to the cluster through the leader; waits until the leader has
// committed the new configuration. The membership future itself is not relied on here.
func (x *Ctx) addServer(leader, id string, voter bool) bool {
	if x.C.Node(id) == nil {
		n, err := x.C.AddNode(id)
		if err != nil {
			x.Note("AddNode %s: %v", id, err)
			return false
		}
		if err := n.Start(); err != nil {
			x.Note("Start %s: %v", id, err)
			return false
		}
	}
	for try := 0; try < 20; try++ {
		x.C.Member(90, nextOp("add"), true, id, voter, leader, 300*time.Millisecond)
		ok := x.WaitFor(500*time.Millisecond, func() bool {
			s := x.C.Node(leader).Sample()
			if s == nil || s.Cfg == nil || s.CCfg == nil {
				return false
			}
			v, member := s.CCfg.Members[id]
			return member && v == voter && s.CCfg.Index == s.Cfg.Index
		})
		if ok {
			return true
		}
		if l := x.C.Leader(); l != "" {
			leader = l
		}
	}
	return false
}

func (x *Ctx) readsAsync(client int, node string, typ string, n int, timeout time.Duration, gap time.Duration) func() {
	var wg sync.WaitGroup
	wg.Add(1)
	go func() {
		defer wg.Done()
		for i := 0; i < n; i++ {
			x.C.Submit(client, nextOp(fmt.Sprintf("%s%d", map[string]string{"LR": "lr", "SR": "sr"}[typ], client)), typ, node, timeout, 0)
			if gap > 0 {
				time.Sleep(gap)
			}
		}
	}()
	return wg.Wait
}

// scenDeposedRead: the old leader is cut off from the voters (optionally keeping a non-voter), a new leader
// acknowledges writes, reads are issued at the old leader.
func scenDeposedRead(x *Ctx) {
	r := x.R
	typ := x.P.Str("read", "LR")
	all, l, ok := x.startStatic(3)
	if !ok {
		return
	}
	x.Writes(1, l, 3, time.Second)
	withNV := r.Intn(3) != 0
	side := []string{l}
	if withNV {
		if !x.addServer(l, "nv1", false) {
			x.Inconclusive("could not add the non-voter")
			return
		}
		x.NT("non-voter")
		side = append(side, "nv1")
		if r.Intn(2) == 0 && x.addServer(l, "nv2", false) {
			side = append(side, "nv2")
		}
		if cur := x.C.Leader(); cur != l {
			x.Inconclusive("leader changed during set-up")
			return
		}
	}
	voters := minus(all, []string{l})
	oneWay := r.Intn(3) == 0
	if oneWay {
		// only the old leader's inbound and outbound to the voters; non-voters stay reachable
		x.Step("cut %v <-> %v (voters), old leader keeps %v", l, voters, side[1:])
	} else {
		x.Step("partition %v | %v", side, voters)
	}
	x.C.Net.Partition(side, voters)
	w := x.readsAsync(7, l, typ, 60, 30*time.Millisecond, time.Millisecond)
	l2 := x.C.WaitLeaderAmong(voters, 6*time.Second)
	if l2 == "" {
		x.Inconclusive("voters elected no leader")
		x.stop.Store(true)
		w()
		return
	}
	x.Step("new leader %s acknowledges writes", l2)
	x.Writes(2, l2, 3+r.Intn(4), time.Second)
	// reads at the old leader after the acknowledgements
	w2 := x.readsAsync(8, l, typ, 20, 40*time.Millisecond, 2*time.Millisecond)
	x.Writes(3, l2, 2, time.Second)
	w2()
	w()
	x.Step("heal")
	x.C.Net.Heal()
	x.finishDirected()
}

var heldTerm atomic.Uint64

func term0(x *Ctx, l string) uint64 { return heldTerm.Load() }

// scenStaleRound: replies of a heartbeat round sent BEFORE the read are held and released after a newer
// leader has acknowledged writes and the read has been invoked at the old leader.
func scenStaleRound(x *Ctx) {
	r := x.R
	all, l, ok := x.startStatic(3 + 2*r.Intn(2))
	if !ok {
		return
	}
	x.Writes(1, l, 3, time.Second)
	gate := simnet.NewGate()
	rule := x.C.Net.AddRule(&simnet.Rule{Name: "hold-heartbeat-replies", Gate: gate, Match: func(m *mon.Msg, reply bool) bool {
		return reply && m.Kind == "AE" && m.From == l
	}})
	need := len(all) / 2
	if !x.WaitFor(2*time.Second, func() bool { return gate.HeldCount() >= need+1 }) {
		x.Inconclusive("no heartbeat replies were held")
		x.C.Net.RemoveRule(rule)
		return
	}
	if r.Intn(2) == 0 && len(all) == 3 {
		// the held replies outlive a whole leadership: l is deposed and re-elected before the final partition
		v := ""
		x.C.Net.RemoveRule(rule) // releases the gate: keep only ONE voter's replies from now on
		others0 := x.others(l)
		v = others0[r.Intn(2)]
		w := minus(others0, []string{v})[0]
		gate = simnet.NewGate()
		x.C.Net.AddRule(&simnet.Rule{Name: "hold-replies-of-one-voter", Gate: gate, Match: func(m *mon.Msg, reply bool) bool {
			return reply && m.Kind == "AE" && m.From == l && m.To == v && m.Term == term0(x, l)
		}})
		t1 := x.C.Node(l).R().Status().Term
		heldTerm.Store(t1)
		time.Sleep(time.Duration(60+r.Intn(60)) * x.C.Opts.HB) // many rounds: the held replies carry large round numbers
		if gate.HeldCount() == 0 {
			x.Inconclusive("no replies of the first leadership were held")
			return
		}
		x.Step("leadership 1 of %s (term %d): %d replies of %s held; depose it", l, t1, gate.HeldCount(), v)
		x.C.Net.Partition([]string{l}, others0)
		l2 := x.C.WaitLeaderAmong(others0, 6*time.Second)
		if l2 == "" {
			x.Inconclusive("no second leader")
			return
		}
		x.Writes(5, l2, 1, time.Second)
		// bring l back and let it catch up, then isolate l2 so that l wins again with the third node's vote
		x.C.Net.ClearLinks()
		if !x.WaitFor(3*time.Second, func() bool {
			a, b := x.C.Node(l).Sample(), x.C.Node(l2).Sample()
			return a != nil && b != nil && a.Term == b.Term && a.Commit >= b.Commit && b.State == "leader"
		}) {
			x.Inconclusive("%s did not catch up", l)
			return
		}
		third := minus(others0, []string{l2})[0]
		quiet := x.C.Net.AddRule(&simnet.Rule{Name: "third-does-not-campaign", Drop: true, Match: func(m *mon.Msg, reply bool) bool {
			return !reply && m.Kind == "RV" && m.From == third
		}})
		x.Step("isolate %s; %s is re-elected", l2, l)
		x.C.Net.Partition([]string{l2}, []string{l, third})
		if !x.WaitFor(10*time.Second, func() bool { s := x.C.Node(l).Sample(); return s != nil && s.State == "leader" && s.Term > t1 }) {
			x.Inconclusive("%s was not re-elected", l)
			return
		}
		x.C.Net.ClearLinks()
		x.C.Net.RemoveRule(quiet)
		_ = w
		// the isolated second leader must have noticed the new term before the final phase looks for "a leader among the others"
		if !x.WaitFor(3*time.Second, func() bool { s := x.C.Node(l2).Sample(); return s != nil && s.State != "leader" }) {
			x.Inconclusive("%s did not step down", l2)
			return
		}
		x.NT("two-leaderships")
	}
	x.Step("held %d heartbeat replies to %s; partition it away", gate.HeldCount(), l)
	// from now on nothing passes between the old leader and the others (the held replies are already "in flight")
	others := x.others(l)
	x.C.Net.AddRule(&simnet.Rule{Name: "cut", Drop: true, Match: func(m *mon.Msg, reply bool) bool {
		if reply {
			return false
		}
		return m.From == l || m.To == l
	}})
	l2 := x.C.WaitLeaderAmong(others, 6*time.Second)
	if l2 == "" {
		x.Inconclusive("others elected no leader")
		x.C.Net.Heal()
		return
	}
	x.Writes(2, l2, 3+r.Intn(3), time.Second)
	if r.Intn(3) == 0 {
		x.Step("read at old leader %s, then release the held replies", l)
		w := x.readsAsync(7, l, "LR", 1, 800*time.Millisecond, 0)
		time.Sleep(time.Duration(2+r.Intn(10)) * time.Millisecond)
		gate.Release()
		w()
		x.NT("released-after-read")
	} else {
		// the late replies reach the old leader first (whatever it concludes from them about "now"), the reads follow at once
		x.Step("release the held replies, then read at old leader %s", l)
		gate.Release()
		time.Sleep(time.Duration(200+r.Intn(3000)) * time.Microsecond)
		w := x.readsAsync(7, l, "LR", 3, 300*time.Millisecond, time.Millisecond)
		w()
		x.NT("released-before-read")
	}
	x.Step("heal")
	x.C.Net.Heal()
	x.finishDirected()
}

// scenFreshLeaderRead: reads hammer every node across a full-cluster restart, so that a freshly elected
// leader gets reads before it has committed (or applied) anything in its term.
func scenFreshLeaderRead(x *Ctx) {
	r := x.R
	typ := x.P.Str("read", "LR")
	all, l, ok := x.startStatic(x.P.Int("voters", 3))
	if !ok {
		return
	}
	x.Writes(1, l, 15+r.Intn(20), time.Second)
	for round := 0; round < 2; round++ {
		x.Step("crash all, restart all")
		for _, id := range x.C.UpIDs() {
			x.C.Node(id).Crash("fresh-leader")
		}
		for _, id := range all {
			x.C.Node(id).WaitDown(time.Second)
		}
		for _, id := range all {
			x.C.Node(id).Restart()
		}
		var waits []func()
		for i, id := range all {
			waits = append(waits, x.readsAsync(10+i, id, typ, 400, 50*time.Millisecond, 200*time.Microsecond))
		}
		for _, w := range waits {
			w()
		}
		if nl := x.C.WaitLeader(3 * time.Second); nl != "" {
			x.Writes(2, nl, 3, time.Second)
		}
	}
	x.finishDirected()
}

func init() {
	Registry["w2.deposedread"] = scenDeposedRead
	Registry["w2.staleround"] = scenStaleRound
	Registry["w2.freshread"] = scenFreshLeaderRead
}

// ---------------------------------------------------------------- C16: outsiders cannot depose a healthy leader

func scenDisrupt(x *Ctx) {
	r := x.R
	n := []int{3, 5, 5}[r.Intn(3)]
	all, l, ok := x.startStatic(n)
	if !ok {
		return
	}
	x.Writes(1, l, 3, time.Second)
	var nvs []string
	if r.Intn(3) == 0 && x.addServer(l, "nv1", false) {
		nvs = append(nvs, "nv1")
	}
	// let things settle: one leader, everybody in its term
	time.Sleep(3 * x.ET())
	l = x.C.Leader()
	if l == "" {
		x.Inconclusive("no stable leader before the window")
		return
	}
	k := 1
	if n == 5 {
		k = 1 + r.Intn(2)
	}
	outs := subset(r, x.others2(l, all), k)
	maj := minus(all, outs)
	term := x.C.Node(l).R().Status().Term
	x.C.ResetStall()
	x.M.Emit(mon.Event{Kind: mon.KPhase, Str: fmt.Sprintf("c16.start|%s|%s|%d|%d", strings.Join(maj, ","), l, term, int64(x.ET()))})
	x.Step("window: leader %s term %d, majority %v, outsiders %v", l, term, maj, outs)
	// clients keep the leader busy - or, in a third of the runs, the cluster is idle, so that the outsiders' logs
	// stay as up to date as everybody else's and only the recent-contact rule stands between them and a vote
	var stopW atomic.Bool
	var wg sync.WaitGroup
	idle := r.Intn(3) == 0
	if idle {
		x.Step("idle cluster (no client writes in the window)")
		stopW.Store(true)
	}
	wg.Add(1)
	go func() {
		defer wg.Done()
		for !stopW.Load() {
			x.C.Submit(3, nextOp("w3"), "W", l, 300*time.Millisecond, 0)
			time.Sleep(3 * time.Millisecond)
		}
	}()
	rest := append(append([]string(nil), maj...), nvs...)
	acts := 2 + r.Intn(3)
	for a := 0; a < acts; a++ {
		d := time.Duration(float64(x.ET()) * (0.5 + r.Float64()*float64([]int{2, 6, 12}[r.Intn(3)])))
		switch r.Intn(6) {
		case 0:
			x.Step("isolate %v for %v", outs, d)
			x.C.Net.Partition(outs, rest)
			time.Sleep(d)
			x.C.Net.Heal()
		case 1:
			x.Step("cut inbound of %v for %v (they still reach the others)", outs, d)
			x.C.Net.CutOneWay(rest, outs)
			time.Sleep(d)
			x.C.Net.Heal()
		case 2:
			x.Step("cut outbound of %v for %v", outs, d)
			x.C.Net.CutOneWay(outs, rest)
			time.Sleep(d)
			x.C.Net.Heal()
		case 3:
			o := pick(r, outs)
			x.Step("crash %s, restart after %v", o, d/2)
			x.C.Node(o).Crash("c16")
			x.C.Node(o).WaitDown(time.Second)
			time.Sleep(d / 2)
			x.C.Node(o).Restart()
		case 4:
			// isolate, let them campaign for long, rejoin with all their requests duplicated and delayed
			x.Step("isolate %v for %v, rejoin through a noisy link", outs, d)
			x.C.Net.Partition(outs, rest)
			time.Sleep(d)
			x.C.Net.Heal()
			for _, o := range outs {
				for _, m := range rest {
					x.C.Net.SetLink(o, m, func(lk *simnet.Link) { lk.DupPct, lk.DelayMaxUs = 50, 3000 })
				}
			}
		default:
			o := pick(r, outs)
			x.Step("remove %s from the cluster and leave it running", o)
			x.C.Member(9, nextOp("rem"), false, o, false, l, 500*time.Millisecond)
		}
		time.Sleep(time.Duration(r.Intn(int(2*x.ET()/time.Millisecond))) * time.Millisecond)
	}
	time.Sleep(2 * x.ET())
	stopW.Store(true)
	wg.Wait()
	x.M.Emit(mon.Event{Kind: mon.KPhase, Str: fmt.Sprintf("c16.end|%d", x.C.StallMaxNs.Load())})
	x.NT("c16-window")
	x.C.Net.Heal()
}

func (x *Ctx) others2(id string, all []string) []string { return minus(all, []string{id}) }

// ---------------------------------------------------------------- C17: lease reads

func scenLease(x *Ctx) {
	r := x.R
	nv := x.P.Int("voters", 3)
	all, l, ok := x.startStatic(nv)
	if !ok {
		return
	}
	// bounded message delay on every link
	dmax := x.P.Int("delayus", 15000)
	noise := func() {
		for _, a := range x.C.IDs() {
			for _, b := range x.C.IDs() {
				if a != b {
					x.C.Net.SetLink(a, b, func(lk *simnet.Link) { lk.DelayMaxUs = dmax })
				}
			}
		}
	}
	x.Writes(1, l, 3, 2*time.Second)
	side := []string{l}
	if r.Intn(2) == 0 && x.addServer(l, "nv1", false) {
		side = append(side, "nv1")
		x.NT("non-voter")
	}
	noise()
	l2cand := minus(all, []string{l})
	burst := false
	if nv >= 5 {
		// the old leader keeps a minority of the voters on its side (they go on answering it), and clients send it
		// bursts of writes, so that replication rounds start closer together than a round trip
		k := (nv-1)/2 - 1 // with the leader itself still one short of a majority
		if k < 1 {
			k = 1
		}
		keep := subset(r, l2cand, 1+r.Intn(k))
		side = append(side, keep...)
		l2cand = minus(l2cand, keep)
		burst = true
		x.NT("voter-minority-with-old-leader")
	}
	lease := time.Duration(x.P.Int("lease", 100)) * time.Millisecond
	if cur := x.C.Leader(); cur != l {
		x.Inconclusive("leader changed during set-up")
		return
	}
	x.C.ResetStall()
	x.M.Emit(mon.Event{Kind: mon.KPhase, Str: fmt.Sprintf("c17.start|%s|%s|%d|%d", l, strings.Join(l2cand, ","), int64(lease), int64(x.ET()))})
	// lease reads at the old leader across the whole episode
	var stopR atomic.Bool
	var wg sync.WaitGroup
	for c := 0; c < 2; c++ {
		wg.Add(1)
		go func(c int) {
			defer wg.Done()
			rr := rand.New(rand.NewSource(x.Seed + int64(c)))
			for !stopR.Load() {
				x.C.Submit(20+c, nextOp(fmt.Sprintf("sr%d", 20+c)), "SR", l, 60*time.Millisecond, 0)
				time.Sleep(time.Duration(rr.Intn(8000)) * time.Microsecond)
			}
		}(c)
	}
	if burst {
		wg.Add(1)
		go func() {
			defer wg.Done()
			rr := rand.New(rand.NewSource(x.Seed + 77))
			for !stopR.Load() {
				for i := 0; i < 2+rr.Intn(3); i++ {
					go x.C.Submit(30, nextOp("wb30"), "W", l, 40*time.Millisecond, 0)
				}
				time.Sleep(time.Duration(2+rr.Intn(12)) * time.Millisecond)
			}
		}()
	}
	time.Sleep(time.Duration(r.Intn(200)) * time.Millisecond)
	switch r.Intn(3) {
	case 0, 1:
		x.Step("partition %v | %v", side, l2cand)
		x.C.Net.Partition(side, l2cand)
	default:
		x.Step("cut %v -> %v only (old leader hears nobody)", l2cand, side)
		x.C.Net.CutOneWay(l2cand, side)
		x.C.Net.CutOneWay(side, l2cand)
	}
	l2 := x.C.WaitLeaderAmong(l2cand, 5*x.ET()+2*time.Second)
	if l2 != "" {
		x.Step("new leader %s acknowledges writes", l2)
		for i := 0; i < 4; i++ {
			x.C.Submit(2, nextOp("w2"), "W", l2, time.Second, 0)
			time.Sleep(time.Duration(r.Intn(40)) * time.Millisecond)
		}
	}
	time.Sleep(6*lease + time.Duration(r.Intn(200))*time.Millisecond)
	stopR.Store(true)
	wg.Wait()
	x.M.Emit(mon.Event{Kind: mon.KPhase, Str: fmt.Sprintf("c17.end|%d|%d", x.C.StallMaxNs.Load(), x.C.Net.MaxRTT)})
	x.NT("c17-window")
	x.C.Net.Heal()
	x.finishDirected()
}

func init() {
	Registry["w2.disrupt"] = scenDisrupt
	Registry["w2.lease"] = scenLease
}

// scenLingering: a node that legitimately became Candidate in an earlier leaderless period keeps campaigning
// with growing terms while a healthy leader serves a majority it cannot reach directly; its real vote requests
// reach a follower that is in prompt contact with that leader (C16), and lease reads run at the leader (C17).
func scenLingering(x *Ctx) {
	r := x.R
	all, a, ok := x.startStatic(3)
	if !ok {
		return
	}
	x.Writes(1, a, 3, time.Second)
	bc := x.others(a)
	b, c := bc[0], bc[1]
	// prevotes pass between b and c, real votes do not: both become candidates and linger
	x.C.Net.AddRule(&simnet.Rule{Name: "drop-real-votes-b-c", Drop: true, Match: func(m *mon.Msg, reply bool) bool {
		return !reply && m.Kind == "RV" && !m.Prevote && ((m.From == b && m.To == c) || (m.From == c && m.To == b))
	}})
	x.Step("crash leader %s; %s and %s grant each other's prevotes but never see each other's vote requests", a, b, c)
	x.C.Node(a).Crash("lingering")
	x.C.Node(a).WaitDown(time.Second)
	isCand := func(id string) bool { s := x.C.Node(id).Sample(); return s != nil && s.State == "candidate" }
	if !x.WaitFor(8*x.ET()+time.Second, func() bool { return isCand(b) && isCand(c) }) {
		x.Inconclusive("the two survivors did not both become candidates")
		return
	}
	x.Step("cut %s <-> %s completely, restart %s", b, c, a)
	x.C.Net.Partition([]string{b}, []string{c})
	x.C.Node(a).Restart()
	l := x.C.WaitLeaderAmong(bc, 6*x.ET()+2*time.Second)
	if l == "" {
		x.Inconclusive("no leader after the restart")
		return
	}
	out := c
	if l == c {
		out = b
	}
	// wait until the follower has heard from the leader
	time.Sleep(x.ET() / 2)
	if s := x.C.Node(l).Sample(); s == nil || s.State != "leader" {
		x.Inconclusive("leader not stable at window start")
		return
	}
	term := x.C.Node(l).R().Status().Term
	maj := []string{l, a}
	sort.Strings(maj)
	lease := x.C.Opts.Lease
	x.C.ResetStall()
	x.M.Emit(mon.Event{Kind: mon.KPhase, Str: fmt.Sprintf("c16.start|%s|%s|%d|%d", strings.Join(maj, ","), l, term, int64(x.ET()))})
	x.M.Emit(mon.Event{Kind: mon.KPhase, Str: fmt.Sprintf("c17.start|%s|%s|%d|%d", l, strings.Join(minus(all, []string{l}), ","), int64(lease), int64(x.ET()))})
	x.Step("window: leader %s (term %d) with %s; lingering candidate %s keeps asking %s for its vote", l, term, a, out, a)
	var stop atomic.Bool
	var wg sync.WaitGroup
	// if the follower ever moves to a higher term, the leader's link to it is lost from that instant (message
	// loss is part of the quantifier): the leader then learns nothing and is protected by its lease alone
	var cut atomic.Bool
	x.C.Net.AddRule(&simnet.Rule{Name: "lose-leader-follower-link", Drop: true, Match: func(m *mon.Msg, reply bool) bool {
		return cut.Load() && ((m.From == l && m.To == a) || (m.From == a && m.To == l))
	}})
	wg.Add(1)
	go func() {
		defer wg.Done()
		for !stop.Load() {
			if s := x.C.Node(a).Sample(); s != nil && s.Term > term {
				cut.Store(true)
				return
			}
			time.Sleep(300 * time.Microsecond)
		}
	}()
	wg.Add(2)
	go func() { // lease reads at the leader
		defer wg.Done()
		for !stop.Load() {
			x.C.Submit(21, nextOp("sr21"), "SR", l, 50*time.Millisecond, 0)
			time.Sleep(time.Duration(500+r.Intn(1500)) * time.Microsecond)
		}
	}()
	go func() { // writes at whoever the outsider side believes leads (only succeeds if the outsider got elected)
		defer wg.Done()
		for !stop.Load() {
			x.C.Submit(22, nextOp("w22"), "W", out, 40*time.Millisecond, 0)
			time.Sleep(2 * time.Millisecond)
		}
	}()
	time.Sleep(time.Duration(4+r.Intn(4)) * x.ET())
	stop.Store(true)
	wg.Wait()
	x.M.Emit(mon.Event{Kind: mon.KPhase, Str: fmt.Sprintf("c16.end|%d", x.C.StallMaxNs.Load())})
	x.M.Emit(mon.Event{Kind: mon.KPhase, Str: fmt.Sprintf("c17.end|%d|%d", x.C.StallMaxNs.Load(), x.C.Net.MaxRTT)})
	x.NT("c16-window")
	x.NT("lingering-candidate")
	x.C.Net.Heal()
}

func init() { Registry["w2.lingering"] = scenLingering }

// scenLeaseVote: a follower grants a prevote while it has lost contact with the leader, is back in prompt contact
// when the candidate's real vote request arrives, and the leader keeps serving lease reads (C17, C16).
func scenLeaseVote(x *Ctx) {
	r := x.R
	all, a, ok := x.startStatic(3)
	if !ok {
		return
	}
	x.Writes(1, a, 3, time.Second)
	time.Sleep(x.ET()) // idle: everybody's log is equally up to date
	if x.C.Leader() != a {
		x.Inconclusive("leader changed during set-up")
		return
	}
	bc := x.others(a)
	term := x.C.Node(a).R().Status().Term
	// real vote requests are held until the follower is back in contact with the leader
	gate := simnet.NewGate()
	x.C.Net.AddRule(&simnet.Rule{Name: "hold-real-votes", Gate: gate, Match: func(m *mon.Msg, reply bool) bool {
		return !reply && m.Kind == "RV" && !m.Prevote && m.To != a
	}})
	// the leader never hears from a candidate directly
	x.C.Net.AddRule(&simnet.Rule{Name: "leader-deaf-to-votes", Drop: true, Match: func(m *mon.Msg, reply bool) bool {
		return !reply && m.Kind == "RV" && m.To == a
	}})
	x.Step("leader %s loses its outbound links until somebody has won a prevote", a)
	x.C.Net.CutOneWay([]string{a}, bc)
	if !x.WaitFor(4*x.ET(), func() bool { return gate.HeldCount() > 0 }) {
		x.Inconclusive("nobody became candidate")
		gate.Release()
		return
	}
	// who is the candidate, who granted the prevote?
	cand, voter := "", ""
	for _, id := range bc {
		if s := x.C.Node(id).Sample(); s != nil && s.State == "candidate" {
			cand = id
		}
	}
	if cand == "" {
		x.Inconclusive("no candidate found")
		gate.Release()
		return
	}
	voter = minus(bc, []string{cand})[0]
	if s := x.C.Node(voter).Sample(); s == nil || s.State != "follower" || s.Term != term {
		x.Inconclusive("the other node is not a follower of the old term any more")
		gate.Release()
		return
	}
	lease := x.C.Opts.Lease
	x.C.ResetStall()
	x.M.Emit(mon.Event{Kind: mon.KPhase, Str: fmt.Sprintf("c17.start|%s|%s|%d|%d", a, strings.Join(bc, ","), int64(lease), int64(x.ET()))})
	x.Step("%s is candidate (term %d) with %s's prevote; %s <-> %s restored, then the vote request is delivered", cand, term+1, voter, a, voter)
	x.C.Net.ClearLinks() // the rules (held vote requests, deaf leader) stay
	x.C.Net.AddRule(&simnet.Rule{Name: "leader-cannot-reach-candidate", Drop: true, Match: func(m *mon.Msg, reply bool) bool {
		return !reply && m.From == a && m.To == cand
	}})
	var cut atomic.Bool
	x.C.Net.AddRule(&simnet.Rule{Name: "lose-leader-voter-link", Drop: true, Match: func(m *mon.Msg, reply bool) bool {
		return cut.Load() && ((m.From == a && m.To == voter) || (m.From == voter && m.To == a))
	}})
	var stop atomic.Bool
	var wg sync.WaitGroup
	wg.Add(3)
	go func() {
		defer wg.Done()
		for !stop.Load() {
			if s := x.C.Node(voter).Sample(); s != nil && s.Term > term {
				cut.Store(true)
				return
			}
			time.Sleep(200 * time.Microsecond)
		}
	}()
	go func() {
		defer wg.Done()
		for !stop.Load() {
			x.C.Submit(21, nextOp("sr21"), "SR", a, 50*time.Millisecond, 0)
			time.Sleep(time.Duration(300+r.Intn(1000)) * time.Microsecond)
		}
	}()
	go func() {
		defer wg.Done()
		for !stop.Load() {
			x.C.Submit(22, nextOp("w22"), "W", cand, 40*time.Millisecond, 0)
			time.Sleep(time.Millisecond)
		}
	}()
	_ = all
	// the voter is back in prompt contact with the leader; now the candidate's vote request arrives
	time.Sleep(3*x.C.Opts.HB + 5*time.Millisecond)
	gate.Release()
	time.Sleep(time.Duration(3+r.Intn(3)) * x.ET())
	stop.Store(true)
	wg.Wait()
	x.M.Emit(mon.Event{Kind: mon.KPhase, Str: fmt.Sprintf("c17.end|%d|%d", x.C.StallMaxNs.Load(), x.C.Net.MaxRTT)})
	x.NT("c17-window")
	x.NT("lease-vote")
	x.C.Net.Heal()
}

func init() { Registry["w2.leasevote"] = scenLeaseVote }

// scenInstallCrash: a lagging follower is killed at a chosen point of a snapshot installation (after the snapshot
// became visible, before the log was trimmed / discarded, ...), restarted, and must catch up (C14, C15).
func scenInstallCrash(x *Ctx) {
	r := x.R
	all, l, ok := x.startStatic(3)
	if !ok {
		return
	}
	f := x.others(l)[r.Intn(2)]
	x.Writes(1, l, 3, time.Second)
	thr0 := x.C.Opts.FSM.SnapThreshold
	if thr0 <= 0 {
		thr0 = 10
	}
	variant := r.Intn(5)
	longTail := variant == 4
	if variant == 3 {
		// a freshly added, empty member receives the snapshot
		x.Writes(3, l, 2*thr0+5, time.Second)
		if !x.ensureNode("m1") {
			return
		}
		ops := []string{"log.discard", "log.discard", "snap.close"}
		plan := &shim.CrashPlan{Op: ops[r.Intn(len(ops))], Nth: 1, After: false}
		if plan.Op == "snap.close" {
			plan.After = true
		}
		x.Step("add the empty node m1; plan its crash around %s of the installation", plan.Op)
		x.C.Node("m1").PlanCrash(plan)
		go x.memberOp(l, true, "m1", false, 500*time.Millisecond)
		if x.C.Node("m1").WaitDown(4 * time.Second) {
			x.Cover("install-crash-fired:empty-member " + plan.Op)
			x.Step("restart m1")
			if err := x.C.Node("m1").Restart(); err != nil {
				x.M.AddViolation(mon.Violation{Props: restartProps(err), Sig: "restart-failed", Node: "m1", Msg: fmt.Sprintf("node m1 could not be created/started over its directory after %q: %v", x.C.Node("m1").LastCrash, err)})
			}
		}
		x.NT("install-crash")
		x.finishDirected()
		return
	}
	if variant == 0 || longTail {
		// give the follower a stale uncommitted tail first: make it the old leader
		x.Step("isolate leader %s with an uncommitted tail", l)
		x.C.Net.Partition([]string{l}, x.others(l))
		tail := 4 + r.Intn(6)
		if longTail {
			tail = 3*thr0 + 4 // longer than the snapshot label the others will reach
		}
		w := x.WritesAsync(2, l, tail, 80*time.Millisecond)
		f = l
		l = x.C.WaitLeaderAmong(minus(all, []string{f}), 5*time.Second)
		w()
		if l == "" {
			x.Inconclusive("no new leader")
			return
		}
	} else {
		x.Step("isolate follower %s", f)
		x.C.Net.Partition([]string{f}, minus(all, []string{f}))
	}
	// the rest of the cluster moves on far enough to snapshot and compact
	thr := x.C.Opts.FSM.SnapThreshold
	if thr <= 0 {
		thr = 10
	}
	if longTail {
		x.Writes(3, l, thr+2, time.Second) // just enough to snapshot: the label stays below the stale tail's end
	} else {
		x.Writes(3, l, 2*thr+5, time.Second)
	}
	ops := []string{"log.discard", "log.discard", "log.compact", "snap.close", "snap.write", "snap.new"}
	if longTail {
		ops = []string{"log.discard", "snap.close"}
	}
	plan := &shim.CrashPlan{Op: ops[r.Intn(len(ops))], Nth: 1, After: r.Intn(2) == 0}
	if longTail {
		plan.After = plan.Op == "snap.close"
	}
	pos := "before"
	if plan.After {
		pos = "after"
	}
	x.Step("plan crash of %s %s %s, heal", f, pos, plan.Op)
	x.C.Node(f).PlanCrash(plan)
	x.C.Net.Heal()
	if x.C.Node(f).WaitDown(3 * time.Second) {
		x.Cover("install-crash-fired:" + pos + " " + plan.Op)
		if r.Intn(2) == 0 {
			x.Writes(4, l, 3, time.Second)
		}
		x.Step("restart %s", f)
		if err := x.C.Node(f).Restart(); err != nil {
			x.M.AddViolation(mon.Violation{Props: restartProps(err), Sig: "restart-failed", Node: f, Msg: fmt.Sprintf("node %s could not be created/started over its directory after %q: %v", f, x.C.Node(f).LastCrash, err)})
		}
	}
	x.NT("install-crash")
	x.finishDirected()
}

func init() { Registry["w2.installcrash"] = scenInstallCrash }

// scenStaleInstall: a lagging follower receives a snapshot (whole-log replacement) from a leader whose term is
// newer than the snapshot's last included term; that leader dies before the follower appends anything; the other
// voter's log ends in the older term but holds committed (and applied) entries beyond the snapshot. The follower
// must not win the election on the strength of its boundary entry (C01, C07, C11).
func scenStaleInstall(x *Ctx) {
	r := x.R
	all, a, ok := x.startStatic(3)
	if !ok {
		return
	}
	thr := x.C.Opts.FSM.SnapThreshold
	if thr <= 0 {
		x.Inconclusive("needs snapshots")
		return
	}
	bc := x.others(a)
	b, c := bc[0], bc[1]
	x.Step("isolate %s; %s and %s move on and snapshot", c, a, b)
	x.C.Net.Partition([]string{c}, []string{a, b})
	x.Writes(1, a, 2*thr+2+r.Intn(4), time.Second)
	// b takes over in a newer term, but its entries never reach a
	x.C.Net.AddRule(&simnet.Rule{Name: "b-cannot-replicate-to-a", Drop: true, Match: func(m *mon.Msg, reply bool) bool {
		return !reply && m.Kind != "RV" && m.From == b && m.To == a
	}})
	x.Step("isolate leader %s until %s leads in a newer term", a, b)
	x.C.Net.Partition([]string{a}, []string{b})
	// b needs a vote: a's outbound is cut by the partition, so let vote traffic through via c? no: reconnect c to b only
	x.C.Net.ClearLinks()
	x.C.Net.Partition([]string{a}, []string{c})
	x.C.Net.CutOneWay([]string{a}, []string{b}) // a's heartbeats do not reach b; b's vote requests reach a
	if !x.WaitFor(8*x.ET()+time.Second, func() bool {
		s := x.C.Node(b).Sample()
		return s != nil && s.State == "leader"
	}) {
		x.Inconclusive("%s did not take over", b)
		return
	}
	x.Step("%s leads; it installs its snapshot on %s; then it dies", b, c)
	// wait until c has installed (its applied index jumps) but has appended nothing yet: stop b's appends to c
	x.C.Net.AddRule(&simnet.Rule{Name: "no-appends-to-c", Drop: true, Match: func(m *mon.Msg, reply bool) bool {
		return !reply && m.Kind == "AE" && m.To == c && len(m.Ents) > 0
	}})
	if !x.WaitFor(4*time.Second, func() bool {
		s := x.C.Node(c).Sample()
		return s != nil && s.LII > 0
	}) {
		x.Inconclusive("%s did not install a snapshot", c)
		return
	}
	x.C.Node(b).Crash("stale-install")
	x.C.Node(b).WaitDown(time.Second)
	x.Step("only %s and %s are left; heal between them", a, c)
	x.C.Net.Heal()
	if l := x.C.WaitLeaderAmong([]string{a, c}, 8*x.ET()+2*time.Second); l != "" {
		x.Writes(3, l, 3, time.Second)
	}
	x.NT("stale-install")
	_ = all
	x.C.Node(b).Restart()
	x.finishDirected()
}

func init() { Registry["w2.staleinstall"] = scenStaleInstall }

// scenBoundaryLag: a member's log ends exactly one entry before (or exactly at) the leader's snapshot boundary
// when it returns; no further faults. It must catch up (C15).
func scenBoundaryLag(x *Ctx) {
	r := x.R
	thr := x.C.Opts.FSM.SnapThreshold
	if thr <= 0 {
		x.Inconclusive("needs snapshots")
		return
	}
	all, l, ok := x.startStatic(3)
	if !ok {
		return
	}
	f := x.others(l)[r.Intn(2)]
	lastIdx := func(id string) (uint64, int) {
		x.M.Lock()
		defer x.M.Unlock()
		if sh := x.M.Nodes[id]; sh != nil {
			return sh.LastIndex(), int(sh.LastIndex() - sh.BaseIndex())
		}
		return 0, 0
	}
	// fill the leader's log to one entry below the snapshot threshold, with the follower fully caught up
	for i := 0; i < 4*thr; i++ {
		if _, size := lastIdx(l); size >= thr-1 {
			break
		}
		x.Writes(1, l, 1, time.Second)
	}
	li, size := lastIdx(l)
	if size != thr-1 {
		x.Inconclusive("could not bring the leader's log to threshold-1 (size %d, threshold %d)", size, thr)
		return
	}
	x.WaitFor(time.Second, func() bool { fi, _ := lastIdx(f); return fi == li })
	extra := 1 + r.Intn(2) // the follower will miss 1 entry (ends at boundary-1) or 2
	x.Step("isolate %s at index %d; the leader writes %d more and snapshots", f, li, extra)
	x.C.Net.Partition([]string{f}, minus(all, []string{f}))
	x.Writes(2, l, extra, time.Second)
	x.WaitFor(2*time.Second, func() bool { s := x.C.Node(l).Sample(); return s != nil && s.LII > li })
	if s := x.C.Node(l).Sample(); s != nil {
		x.Step("leader snapshot boundary %d, follower log ends at %d", s.LII, li)
		if s.LII == li+1 {
			x.NT("ends-one-before-boundary")
		}
	}
	x.NT("boundary-lag")
	x.finishDirected()
}

func init() { Registry["w2.boundarylag"] = scenBoundaryLag }

// ---------------------------------------------------------------- stale replication reply across two leaderships (C04 C01)

func (x *Ctx) split(groups ...[]string) {
	x.C.Net.ClearLinks()
	for i := range groups {
		for j := i + 1; j < len(groups); j++ {
			x.C.Net.Partition(groups[i], groups[j])
		}
	}
}

// scenStaleReply: a follower's successful reply to entries of leadership 1 is delayed until the same node
// leads again (two terms later) with different entries at those indices. If the reply is still accepted, the
// leader counts a replica that does not hold its entries and commits (and acknowledges) without a majority;
// the entries are then lost to the next leader.
func scenStaleReply(x *Ctx) {
	r := x.R
	all, l, ok := x.startStatic(5)
	if !ok {
		return
	}
	x.Writes(1, l, 2, time.Second)
	t1 := x.C.Node(l).R().Status().Term
	rest := x.others(l)
	v := pick(r, rest)
	abc := minus(rest, []string{v})
	// variant "held": v's acknowledgements are delayed across the two leaderships.
	// variant "match": v's acknowledgements arrive at once (the leader remembers how far v matched), and v's tail
	// is then overwritten by the intermediate leader like everybody else's.
	held := r.Intn(2) == 0
	gate := simnet.NewGate()
	if held {
		x.C.Net.AddRule(&simnet.Rule{Name: "hold-acks-of-v", Gate: gate, Match: func(m *mon.Msg, reply bool) bool {
			return reply && m.Kind == "AE" && m.From == l && m.To == v && m.Term == t1 && len(m.Ents) > 0
		}})
		x.Step("leadership 1 (%s, term %d): entries reach only %s, whose acknowledgements are delayed", l, t1, v)
	} else {
		x.Step("leadership 1 (%s, term %d): entries reach only %s, which acknowledges them", l, t1, v)
	}
	x.split([]string{l, v}, abc)
	n1 := 5 + r.Intn(4)
	w1 := x.WritesAsync(2, l, n1, 150*time.Millisecond)
	if held {
		if !x.WaitFor(2*time.Second, func() bool { return gate.HeldCount() > 0 }) {
			w1()
			x.Inconclusive("no acknowledgement was held")
			return
		}
		time.Sleep(20 * time.Millisecond)
	} else {
		w1()
		if !x.WaitFor(2*time.Second, func() bool { s := x.C.Node(l).Sample(); return s != nil && s.Match[v] >= s.Commit+uint64(n1) }) {
			x.Inconclusive("%s did not acknowledge the tail", v)
			return
		}
	}
	x.Step("isolate %s and %s; the other three elect a leader and commit different entries", l, v)
	x.split([]string{l}, []string{v}, abc)
	w1()
	l2 := x.C.WaitLeaderAmong(abc, 6*time.Second)
	if l2 == "" {
		x.Inconclusive("no second leader")
		return
	}
	x.Writes(3, l2, 1+r.Intn(2), time.Second)
	caught := []string{l}
	if held {
		x.Step("%s rejoins (not %s), catches up and is re-elected", l, v)
		x.split([]string{v}, minus(all, []string{v}))
	} else {
		x.Step("%s and %s rejoin, their tails are overwritten; %s is re-elected", l, v, l)
		x.C.Net.ClearLinks()
		caught = []string{l, v}
	}
	if !x.WaitFor(3*time.Second, func() bool {
		b := x.C.Node(l2).Sample()
		if b == nil || b.State != "leader" {
			return false
		}
		for _, id := range caught {
			a := x.C.Node(id).Sample()
			if a == nil || a.Term != b.Term || a.Commit < b.Commit {
				return false
			}
		}
		return true
	}) {
		x.Inconclusive("%v did not catch up", caught)
		return
	}
	quiet := x.C.Net.AddRule(&simnet.Rule{Name: "only-l-campaigns", Drop: true, Match: func(m *mon.Msg, reply bool) bool {
		return !reply && m.Kind == "RV" && m.From != l
	}})
	t2 := x.C.Node(l2).R().Status().Term
	x.split([]string{v}, []string{l2}, minus(all, []string{v, l2}))
	if !x.WaitFor(10*time.Second, func() bool { s := x.C.Node(l).Sample(); return s != nil && s.State == "leader" && s.Term > t2 }) {
		x.Inconclusive("%s was not re-elected", l)
		return
	}
	x.C.Net.RemoveRule(quiet)
	b := pick(r, minus(abc, []string{l2}))
	if held {
		x.Step("leadership 2 of %s: it reaches only %s; writes, then the delayed acknowledgements of %s arrive", l, b, v)
	} else {
		x.Step("leadership 2 of %s: it reaches only %s; writes", l, b)
	}
	var groups [][]string
	groups = append(groups, []string{l, b})
	for _, id := range minus(all, []string{l, b}) {
		groups = append(groups, []string{id})
	}
	x.split(groups...)
	w2 := x.WritesAsync(4, l, n1, 400*time.Millisecond)
	time.Sleep(time.Duration(20+r.Intn(30)) * time.Millisecond)
	gate.Release()
	w2()
	if held {
		x.NT("released-in-second-leadership")
	} else {
		x.NT("second-leadership-after-acknowledged-tail")
	}
	x.Step("isolate %s and %s; the other three elect a leader and write", l, b)
	x.split([]string{l, b}, minus(all, []string{l, b}))
	if l3 := x.C.WaitLeaderAmong(minus(all, []string{l, b}), 6*time.Second); l3 != "" {
		x.Writes(5, l3, 2, time.Second)
	}
	x.Step("heal")
	x.C.Net.Heal()
	x.finishDirected()
}

func init() { Registry["w2.stalereply"] = scenStaleReply }

// ---------------------------------------------------------------- Stop() during a snapshot installation, Start() on the same object (C15 C18)

// scenBounceRestore: a lagging follower is stopped while it installs (restores) the leader's snapshot and is
// started again on the same object. It must take part again and catch up.
func scenBounceRestore(x *Ctx) {
	r := x.R
	_, l, ok := x.startStatic(3)
	if !ok {
		return
	}
	thr := x.C.Opts.FSM.SnapThreshold
	if thr <= 0 {
		x.Inconclusive("needs snapshots")
		return
	}
	f := pick(r, x.others(l))
	x.Writes(1, l, 2, time.Second)
	x.Step("isolate follower %s; the others move past a snapshot", f)
	x.C.Net.Partition([]string{f}, x.others(f))
	x.Writes(2, l, 2*thr+3, time.Second)
	if !x.WaitFor(3*time.Second, func() bool { s := x.C.Node(l).Sample(); return s != nil && s.LII > 2 }) {
		x.Inconclusive("leader took no snapshot")
		return
	}
	var sawIS atomic.Int32
	var ackd atomic.Bool
	x.C.Net.AddRule(&simnet.Rule{Name: "watch-install", Match: func(m *mon.Msg, reply bool) bool {
		if reply && m.Kind == "IS" && m.To == f && m.RWritten > 0 {
			ackd.Store(true) // the follower holds a first part of this transfer
		}
		if !reply && m.Kind == "IS" && m.To == f && m.Done && (m.NBytes > 0 || ackd.Load()) {
			sawIS.Add(1) // the final chunk is on its way: the follower is about to restore
		}
		return false
	}})
	x.Step("heal; bounce %s while it installs the snapshot", f)
	x.C.Net.ClearLinks()
	if !x.WaitFor(1500*time.Millisecond, func() bool { return sawIS.Load() > 0 }) {
		x.Inconclusive("no snapshot was sent")
		return
	}
	time.Sleep(time.Duration(r.Intn(x.C.Opts.FSM.RestoreUs+2000)) * time.Microsecond)
	pause := time.Duration(0)
	if r.Intn(3) > 0 {
		pause = time.Duration(x.C.Opts.FSM.RestoreUs+3000) * time.Microsecond // the interrupted handler finishes while the node is stopped
	}
	if err := x.C.Node(f).BounceAfter(pause); err != nil {
		x.M.AddViolation(mon.Violation{Props: []string{"C18"}, Sig: "restart-error", Node: f, Msg: fmt.Sprintf("Restart() after Stop() returned %v", err)})
	}
	x.NT("bounced-during-install")
	x.Writes(3, x.C.WaitLeader(3*time.Second), 3, time.Second)
	x.C.Net.Heal()
	x.finishDirected()
}

func init() { Registry["w2.bouncerestore"] = scenBounceRestore }

// ---------------------------------------------------------------- C16: a follower that is busy restoring a snapshot still honours its leader

// scenDisruptRestore: follower F restores a large snapshot (Restore lasts many election timeouts) while the
// sender crashes and X takes over. X then leads in prompt contact with F (F answers every heartbeat, with a
// rejection while it restores). The restarted old leader, which does not hear X (one-way cut), campaigns at F.
func scenDisruptRestore(x *Ctx) {
	r := x.R
	_, a, ok := x.startStatic(3)
	if !ok {
		return
	}
	thr := x.C.Opts.FSM.SnapThreshold
	if thr <= 0 || time.Duration(x.C.Opts.FSM.RestoreUs)*time.Microsecond < 8*x.ET() {
		x.Inconclusive("needs snapshots and a Restore of at least 8 election timeouts")
		return
	}
	f := pick(r, x.others(a))
	xn := minus(x.others(a), []string{f})[0]
	x.Writes(1, a, 2, time.Second)
	x.Step("isolate follower %s; the others move past a snapshot", f)
	x.C.Net.Partition([]string{f}, x.others(f))
	x.Writes(2, a, 2*thr+3, time.Second)
	if !x.WaitFor(3*time.Second, func() bool { s := x.C.Node(a).Sample(); return s != nil && s.LII > 2 }) {
		x.Inconclusive("leader took no snapshot")
		return
	}
	var sawIS atomic.Int32
	var ackd atomic.Bool
	x.C.Net.AddRule(&simnet.Rule{Name: "watch-install", Match: func(m *mon.Msg, reply bool) bool {
		if reply && m.Kind == "IS" && m.To == f && m.RWritten > 0 {
			ackd.Store(true)
		}
		if !reply && m.Kind == "IS" && m.To == f && m.Done && (m.NBytes > 0 || ackd.Load()) {
			sawIS.Add(1)
		}
		return false
	}})
	x.Step("heal: %s starts restoring; crash the sender %s; %s takes over", f, a, xn)
	x.C.Net.ClearLinks()
	if !x.WaitFor(1500*time.Millisecond, func() bool { return sawIS.Load() > 0 }) {
		x.Inconclusive("no snapshot was sent")
		return
	}
	time.Sleep(5 * time.Millisecond)
	x.C.Node(a).Crash("c16-restore")
	x.C.Node(a).WaitDown(time.Second)
	if x.C.WaitLeaderAmong([]string{xn}, 5*x.ET()+time.Second) == "" {
		x.Inconclusive("%s did not take over", xn)
		return
	}
	time.Sleep(2 * x.ET())
	s := x.C.Node(xn).Sample()
	if s == nil || s.State != "leader" {
		x.Inconclusive("%s is not a stable leader", xn)
		return
	}
	term := s.Term
	x.C.ResetStall()
	x.C.Net.CutOneWay([]string{xn}, []string{a})
	x.M.Emit(mon.Event{Kind: mon.KPhase, Str: fmt.Sprintf("c16.start|%s|%s|%d|%d", strings.Join([]string{xn, f}, ","), xn, term, int64(x.ET()))})
	x.Step("window: leader %s term %d in contact with restoring %s; restart %s, which does not hear the leader", xn, term, f, a)
	if err := x.C.Node(a).Restart(); err != nil {
		x.Note("restart of %s failed: %v", a, err)
	}
	time.Sleep(4 * x.ET())
	x.M.Emit(mon.Event{Kind: mon.KPhase, Str: fmt.Sprintf("c16.end|%d", x.C.StallMaxNs.Load())})
	x.NT("c16-window")
	x.NT("c16-restoring-follower")
	x.C.Net.Heal()
}

func init() { Registry["w2.disruptrestore"] = scenDisruptRestore }

// ---------------------------------------------------------------- C15: a restarted voter with a high term and a short log

// scenHighTermRestart: voter A lingers as a candidate (its vote requests are lost) until its term is several
// terms ahead, is cut off while the other two elect a leader in a lower term and write, and is restarted
// (persisted high term, short log, sends prevotes only). Then the leader goes down and the faults stop: the
// remaining majority is {A: high term, short log; C: lower term, complete log}. C must learn A's term from the
// rejections of its prevotes, or no leader is ever elected.
func scenHighTermRestart(x *Ctx) {
	r := x.R
	all, l0, ok := x.startStatic(3)
	if !ok {
		return
	}
	x.Writes(1, l0, 3, time.Second)
	a := pick(r, x.others(l0))
	c := minus(x.others(l0), []string{a})[0]
	t0 := x.C.Node(l0).R().Status().Term
	x.C.Net.AddRule(&simnet.Rule{Name: "lose-a-vote-requests", Drop: true, Match: func(m *mon.Msg, reply bool) bool {
		return !reply && m.Kind == "RV" && !m.Prevote && m.From == a
	}})
	quietC := x.C.Net.AddRule(&simnet.Rule{Name: "c-does-not-campaign", Drop: true, Match: func(m *mon.Msg, reply bool) bool {
		return !reply && m.Kind == "RV" && m.From == c
	}})
	x.Step("crash leader %s; %s wins prevotes of %s but its vote requests are lost: its term runs ahead", l0, a, c)
	x.C.Node(l0).Crash("highterm")
	x.C.Node(l0).WaitDown(time.Second)
	ahead := uint64(3 + r.Intn(3))
	if !x.WaitFor(time.Duration(ahead+6)*2*x.ET()+time.Second, func() bool { s := x.C.Node(a).Sample(); return s != nil && s.Term >= t0+ahead }) {
		x.Inconclusive("%s did not run ahead", a)
		return
	}
	x.Step("cut %s off; restart %s; %s and %s elect a leader in a lower term and write", a, l0, l0, c)
	x.C.Net.Partition([]string{a}, []string{l0, c})
	x.C.Net.RemoveRule(quietC)
	x.C.Node(l0).Restart()
	b := x.C.WaitLeaderAmong([]string{l0, c}, 6*x.ET()+2*time.Second)
	if b == "" {
		x.Inconclusive("no leader among %s and %s", l0, c)
		return
	}
	if x.Writes(2, b, 3+r.Intn(3), time.Second) == 0 {
		x.Inconclusive("no write acknowledged")
		return
	}
	ta := uint64(0)
	if s := x.C.Node(a).Sample(); s != nil {
		ta = s.Term
	}
	tb := x.C.Node(b).R().Status().Term
	if ta <= tb {
		x.Inconclusive("%s (term %d) is not ahead of the leader (term %d)", a, ta, tb)
		return
	}
	if r.Intn(2) == 0 {
		x.Step("restart %s (term %d, short log); crash leader %s (term %d); heal: no more faults", a, ta, b, tb)
		x.C.Node(a).Crash("highterm")
		x.C.Node(a).WaitDown(time.Second)
		x.C.Node(a).Restart()
	} else {
		// not restarted: it is still a candidate and goes on sending real vote requests with its short log
		x.Step("%s stays a candidate (term %d, short log); crash leader %s (term %d); heal: no more faults", a, ta, b, tb)
		x.NT("stale-candidate-not-restarted")
	}
	x.C.Node(b).Crash("highterm")
	x.C.Node(b).WaitDown(time.Second)
	x.C.Net.Heal()
	x.NT("high-term-short-log-restarted")
	_ = all
	x.KeepDown = map[string]bool{b: true} // a majority is running; the third voter stays down
	x.finishDirected()
}

func init() { Registry["w2.hightermrestart"] = scenHighTermRestart }

// ---------------------------------------------------------------- a rejection carrying a higher term arrives two terms late (C08 C02)

// scenStaleReject: follower v has moved to term T2 and rejects the AppendEntries requests of the cut-off leader l
// (term T1) with Term = T2; those replies are held. l learns about T2 from the new leader, catches up, and is
// elected again in T3. Then the replies arrive: they name a term that is higher than the request's but lower
// than l's current term. Nothing may happen - in particular l's term must not go back to T2.
func scenStaleReject(x *Ctx) {
	r := x.R
	all, l, ok := x.startStatic(5)
	if !ok {
		return
	}
	x.Writes(1, l, 2, time.Second)
	t1 := x.C.Node(l).R().Status().Term
	rest := x.others(l)
	v := pick(r, rest)
	abc := minus(rest, []string{v})
	gate := simnet.NewGate()
	x.C.Net.AddRule(&simnet.Rule{Name: "hold-higher-term-replies-of-v", Gate: gate, Match: func(m *mon.Msg, reply bool) bool {
		return reply && m.Kind == "AE" && m.From == l && m.To == v && m.Term == t1 && m.RTerm > m.Term
	}})
	x.Step("cut %s off from %v; it still reaches %s, which follows the leader the others elect", l, abc, v)
	x.C.Net.Partition([]string{l}, abc)
	l2 := x.C.WaitLeaderAmong(abc, 6*time.Second)
	if l2 == "" {
		x.Inconclusive("no second leader")
		return
	}
	x.Writes(3, l2, 1+r.Intn(2), time.Second)
	if !x.WaitFor(2*time.Second, func() bool { return gate.HeldCount() > 0 }) {
		x.Inconclusive("no rejection with a higher term was held")
		return
	}
	t2 := x.C.Node(l2).R().Status().Term
	x.Step("%d rejections (term %d) of %s held; %s rejoins, catches up and is re-elected", gate.HeldCount(), t2, v, l)
	x.C.Net.ClearLinks()
	if !x.WaitFor(3*time.Second, func() bool {
		a, b := x.C.Node(l).Sample(), x.C.Node(l2).Sample()
		return a != nil && b != nil && b.State == "leader" && a.Term == b.Term && a.Commit >= b.Commit
	}) {
		x.Inconclusive("%s did not catch up", l)
		return
	}
	quiet := x.C.Net.AddRule(&simnet.Rule{Name: "only-l-campaigns", Drop: true, Match: func(m *mon.Msg, reply bool) bool {
		return !reply && m.Kind == "RV" && m.From != l
	}})
	x.split([]string{l2}, minus(all, []string{l2}))
	if !x.WaitFor(10*time.Second, func() bool { s := x.C.Node(l).Sample(); return s != nil && s.State == "leader" && s.Term > t2 }) {
		x.Inconclusive("%s was not re-elected", l)
		return
	}
	x.C.Net.RemoveRule(quiet)
	t3 := x.C.Node(l).R().Status().Term
	x.Step("%s leads term %d; the held rejections (term %d) arrive", l, t3, t2)
	gate.Release()
	time.Sleep(time.Duration(5+r.Intn(20)) * time.Millisecond)
	x.NT("higher-term-rejection-released-two-terms-late")
	x.Writes(4, l, 2, 500*time.Millisecond)
	if r.Intn(2) == 0 {
		// the node's stored term and vote are what a restart goes by
		x.C.Node(l).Crash("stalereject")
		x.C.Node(l).WaitDown(time.Second)
		x.C.Node(l).Restart()
	}
	x.Step("heal")
	x.C.Net.Heal()
	x.finishDirected()
}

func init() { Registry["w2.stalereject"] = scenStaleReject }


// ---------------------------------------------------------------- C16: two outsiders that reach each other, in different terms

// scenDisruptPair: of five voters, o1 is cut off before a leader change and o2 after it, so the two are in different
// terms; then they are isolated together (they reach each other, nobody else) for many election timeouts and
// rejoin. Whatever they do to each other, the healthy leader of the other three must stay, in its term.
func scenDisruptPair(x *Ctx) {
	r := x.R
	all, l, ok := x.startStatic(5)
	if !ok {
		return
	}
	x.Writes(1, l, 3, time.Second)
	idle := r.Intn(2) == 0
	outs := subset(r, x.others(l), 2)
	o1, o2 := outs[0], outs[1]
	x.Step("isolate %s; force a leader change among the others", o1)
	x.C.Net.Partition([]string{o1}, minus(all, []string{o1}))
	x.C.Net.Partition([]string{l}, minus(all, []string{l}))
	rest3 := minus(all, []string{o1, l})
	l2 := x.C.WaitLeaderAmong(rest3, 6*x.ET()+2*time.Second)
	if l2 == "" {
		x.Inconclusive("no leader change")
		return
	}
	x.Step("%s leads; %s rejoins as a follower; %s is isolated together with %s", l2, l, o2, o1)
	x.C.Net.ClearLinks()
	x.C.Net.Partition([]string{o1}, minus(all, []string{o1}))
	x.Writes(2, l2, 2, time.Second)
	if l2 == o2 {
		o2 = pick(r, minus(all, []string{o1, l2}))
	}
	x.C.Net.ClearLinks()
	maj := minus(all, []string{o1, o2})
	x.C.Net.Partition([]string{o1, o2}, maj)
	time.Sleep(2 * x.ET())
	s := x.C.Node(l2).Sample()
	if s == nil || s.State != "leader" || x.C.Leader() != l2 {
		x.Inconclusive("no stable leader before the window")
		return
	}
	term := s.Term
	sort.Strings(maj)
	x.C.ResetStall()
	x.M.Emit(mon.Event{Kind: mon.KPhase, Str: fmt.Sprintf("c16.start|%s|%s|%d|%d", strings.Join(maj, ","), l2, term, int64(x.ET()))})
	x.Step("window: leader %s term %d with %v; %s and %s talk to each other only", l2, term, maj, o1, o2)
	var stopW atomic.Bool
	var wg sync.WaitGroup
	wg.Add(1)
	go func() {
		defer wg.Done()
		for !stopW.Load() && !idle {
			x.C.Submit(3, nextOp("w3"), "W", l2, 300*time.Millisecond, 0)
			time.Sleep(3 * time.Millisecond)
		}
	}()
	time.Sleep(time.Duration(8+r.Intn(8)) * x.ET())
	x.Step("the pair rejoins")
	x.C.Net.ClearLinks()
	time.Sleep(4 * x.ET())
	stopW.Store(true)
	wg.Wait()
	x.M.Emit(mon.Event{Kind: mon.KPhase, Str: fmt.Sprintf("c16.end|%d", x.C.StallMaxNs.Load())})
	x.NT("c16-window")
	x.NT("c16-pair-in-different-terms")
	x.C.Net.Heal()
}

func init() { Registry["w2.disruptpair"] = scenDisruptPair }

// ---------------------------------------------------------------- C05/C17: reads at a leader that is removing itself

// scenSelfRemoveRead: leader A of four voters removes itself. The configuration entry reaches everybody, but the
// acknowledgements of C and D are held, so A still considers the change uncommitted and keeps leading - as a node
// that is no voter of the configuration it uses. Then {A,B} are cut off from {C,D}. C and D (two of the three
// voters of the new configuration) elect a leader and acknowledge writes. Reads at A are confirmed by B alone:
// one voter of three. They must not be answered.
func scenSelfRemoveRead(x *Ctx) {
	r := x.R
	typ := x.P.Str("read", "LR")
	nv := 4
	if r.Intn(3) == 0 {
		nv = 2 // the new configuration has a single voter: the old leader is cut off alone
	}
	all, a, ok := x.startStatic(nv)
	if !ok {
		return
	}
	x.Writes(1, a, 3, time.Second)
	rest := x.others(a)
	side := []string{a}
	cd := rest
	if nv == 4 {
		b := pick(r, rest)
		side = append(side, b)
		cd = minus(rest, []string{b})
	}
	held := map[string]bool{}
	for _, id := range cd {
		held[id] = true
	}
	gate := simnet.NewGate()
	x.C.Net.AddRule(&simnet.Rule{Name: "hold-acks-of-the-others", Gate: gate, Match: func(m *mon.Msg, reply bool) bool {
		return reply && m.Kind == "AE" && m.From == a && held[m.To]
	}})
	x.Step("leader %s removes itself; the acknowledgements of %v are held", a, cd)
	done := make(chan struct{})
	go func() {
		defer close(done)
		x.memberOp(a, false, a, false, 3*time.Second)
	}()
	if !x.WaitFor(2*time.Second, func() bool {
		for _, id := range cd {
			s := x.C.Node(id).Sample()
			if s == nil || s.Cfg == nil {
				return false
			}
			if _, in := s.Cfg.Members[a]; in {
				return false
			}
		}
		return true
	}) {
		x.Inconclusive("the new configuration did not reach %v", cd)
		return
	}
	if s := x.C.Node(a).Sample(); s == nil || s.State != "leader" {
		x.Inconclusive("%s is no longer leader", a)
		return
	}
	x.Step("cut %v off from %v; %v elect a leader under the new configuration and write", side, cd, cd)
	x.C.Net.Partition(side, cd)
	l2 := x.C.WaitLeaderAmong(cd, 6*x.ET()+2*time.Second)
	if l2 == "" {
		x.Inconclusive("%v elected no leader", cd)
		return
	}
	if x.Writes(2, l2, 3+r.Intn(3), time.Second) == 0 {
		x.Inconclusive("no write acknowledged by the new leader")
		return
	}
	x.Step("reads at %s, which at most %v answer", a, minus(side, []string{a}))
	w := x.readsAsync(7, a, typ, 6, 150*time.Millisecond, 5*time.Millisecond)
	w()
	x.NT(fmt.Sprintf("read-at-self-removing-leader-of-%d", nv))
	x.Step("heal")
	x.C.Net.Heal()
	<-done
	_ = all
	x.finishDirected()
}

func init() { Registry["w2.selfremoveread"] = scenSelfRemoveRead }

// ---------------------------------------------------------------- C09: an uncommitted configuration whose entry is discarded by a snapshot installation

// scenCfgDiscard: the isolated leader accepts a membership change (appended, in use, never committed). The others
// elect a leader and move past a snapshot. When the old leader returns its whole log is replaced by the snapshot:
// the configuration it took from that log exists nowhere any more and must not stay in use.
func scenCfgDiscard(x *Ctx) {
	r := x.R
	all, a, ok := x.startStatic(3)
	if !ok {
		return
	}
	thr := x.C.Opts.FSM.SnapThreshold
	if thr <= 0 {
		x.Inconclusive("needs snapshots")
		return
	}
	x.Writes(1, a, 2, time.Second)
	var backlogWait func()
	if bl := x.P.Int("backlog", 0); bl > 0 {
		// committed entries that the (slow) state machines are still applying when the snapshot arrives later: the
		// installation then has to wait for an operation in flight
		backlogWait = x.WritesAsync(6, a, bl, 3*time.Second)
		x.WaitFor(2*time.Second, func() bool { s := x.C.Node(a).Sample(); return s != nil && int(s.Commit) >= bl })
	}
	x.Step("isolate leader %s; it accepts AddServer(m1) (uncommitted)", a)
	x.C.Net.Partition([]string{a}, x.others(a))
	if !x.ensureNode("m1") {
		return
	}
	// a long uncommitted tail first, so that the configuration entry lies beyond the snapshot the others will take
	wt := x.WritesAsync(5, a, 2*thr+6, 100*time.Millisecond)
	time.Sleep(30 * time.Millisecond)
	go x.memberOp(a, true, "m1", r.Intn(2) == 0, 300*time.Millisecond)
	wt()
	x.WaitFor(time.Second, func() bool {
		s := x.C.Node(a).Sample()
		if s == nil || s.Cfg == nil {
			return false
		}
		_, in := s.Cfg.Members["m1"]
		return in
	})
	l2 := x.C.WaitLeaderAmong(x.others(a), 6*x.ET()+2*time.Second)
	if l2 == "" {
		x.Inconclusive("no second leader")
		return
	}
	x.Writes(2, l2, thr+3, time.Second)
	if !x.WaitFor(3*time.Second, func() bool { s := x.C.Node(l2).Sample(); return s != nil && s.LII > 3 }) {
		x.Inconclusive("no snapshot on the new leader")
		return
	}
	x.Step("heal: %s receives the snapshot of %s, then entries beyond the index of its configuration", a, l2)
	x.C.Net.ClearLinks()
	x.Writes(3, l2, 2*thr+10, time.Second)
	time.Sleep(4 * x.ET())
	for i := 0; i < 5; i++ {
		x.C.Node(a).Sample()
		time.Sleep(2 * time.Millisecond)
	}
	if r.Intn(2) == 0 {
		// does the node act on the stale configuration? cut the new leader off and let the old one try to lead
		x.Step("isolate %s; writes at whoever leads the other two", l2)
		x.C.Net.Partition([]string{l2}, minus(all, []string{l2}))
		if l3 := x.C.WaitLeaderAmong(minus(all, []string{l2}), 6*x.ET()+2*time.Second); l3 != "" {
			x.Writes(4, l3, 2, time.Second)
		}
	}
	x.NT("uncommitted-configuration-discarded-by-install")
	x.C.Net.Heal()
	if backlogWait != nil {
		backlogWait()
	}
	x.finishDirected()
}

func init() { Registry["w2.cfgdiscard"] = scenCfgDiscard }

// ---------------------------------------------------------------- C15: a follower whose acknowledgements were lost has snapshotted past the leader's next index for it

// scenLostReplies: the follower receives, applies and snapshots everything, but none of its replies reaches the
// leader, whose next index for it stays where it was. When the replies get through again the follower rejects the
// leader's old position with a hint that points FORWARD (past its own snapshot); the leader must follow it.
func scenLostReplies(x *Ctx) {
	r := x.R
	// in two of three runs the leader's application never asks for a snapshot: the leader keeps its whole log and has
	// no snapshot to fall back on, the follower's snapshot is ahead of anything the leader could send
	var noSnap sync.Map
	x.C.Opts.FSM.NoSnap = func(id string) bool { _, ok := noSnap.Load(id); return ok }
	_, l, ok := x.startStatic(3)
	if !ok {
		return
	}
	if r.Intn(3) > 0 {
		noSnap.Store(l, true)
		x.NT("leader-without-snapshots")
	}
	thr := x.C.Opts.FSM.SnapThreshold
	if thr <= 0 {
		x.Inconclusive("needs snapshots")
		return
	}
	x.Writes(1, l, 2, time.Second)
	f := pick(r, x.others(l))
	rule := x.C.Net.AddRule(&simnet.Rule{Name: "lose-replies-of-f", Drop: true, Match: func(m *mon.Msg, reply bool) bool {
		return reply && m.From == l && m.To == f
	}})
	x.Step("replies of %s to leader %s are lost; %s keeps receiving, applying and snapshotting", f, l, f)
	x.Writes(2, l, 3*thr+2+r.Intn(4), time.Second)
	if !x.WaitFor(3*time.Second, func() bool { s := x.C.Node(f).Sample(); return s != nil && s.LII > 2 }) {
		x.Inconclusive("%s took no snapshot", f)
		return
	}
	if cur := x.C.Leader(); cur != l {
		x.Inconclusive("leader changed")
		return
	}
	x.Step("replies get through again")
	x.C.Net.RemoveRule(rule)
	x.NT("follower-snapshot-ahead-of-next-index")
	x.Writes(3, l, 2, time.Second)
	x.finishDirected()
}

func init() { Registry["w2.lostreplies"] = scenLostReplies }
