// Package scen is the scenario library: the random schedule generator and the
// directed choreographies, all parameterised by a seed.
package scen

import (
	"fmt"
	"hash/fnv"
	"math/rand"
	"sort"
	"strconv"
	"strings"
	"sync"
	"sync/atomic"
	"time"

	"verif/harness/cluster"
	"verif/harness/mon"
	"verif/harness/oracle"
	"verif/harness/shim"
)

type Params map[string]string

func (p Params) Int(k string, def int) int {
	if v, ok := p[k]; ok {
		if n, err := strconv.Atoi(v); err == nil {
			return n
		}
	}
	return def
}
func (p Params) Bool(k string) bool { return p[k] == "1" || p[k] == "true" }
func (p Params) Str(k, def string) string {
	if v, ok := p[k]; ok {
		return v
	}
	return def
}

type Result struct {
	Scen         string              `json:"scen"`
	Seed         int64               `json:"seed"`
	Params       map[string]string   `json:"params,omitempty"`
	Verdict      string              `json:"verdict"` // held | violated | inconclusive
	Inconclusive string              `json:"inconclusive,omitempty"`
	Violations   []mon.Violation     `json:"violations,omitempty"`
	Counts       map[string]int      `json:"counts,omitempty"`
	Trace        string              `json:"trace"`
	Steps        []string            `json:"steps,omitempty"`
	Nontrivial   map[string]bool     `json:"nontrivial,omitempty"`
	Cover        map[string]int      `json:"cover,omitempty"`
	Offline      *oracle.Stats       `json:"offline,omitempty"`
	Windows      *oracle.WindowStats `json:"windows,omitempty"`
	Notes        []string            `json:"notes,omitempty"`
	Fatal        []string            `json:"fatal,omitempty"`
	WallMs       int64               `json:"wall_ms"`
	Leaders      []string            `json:"leaders,omitempty"`
	MaxRTTUs     int64               `json:"max_rtt_us,omitempty"`
	MaxStallUs   int64               `json:"max_stall_us,omitempty"`
	EventsFile   string              `json:"events_file,omitempty"`
	NEvents      int                 `json:"n_events,omitempty"`
}

type Ctx struct {
	KeepDown map[string]bool // nodes that stay down in the fault-free period (a majority must remain)
	C        *cluster.Cluster
	M        *mon.Monitor
	R        *rand.Rand
	P        Params
	Res      *Result
	Root     string
	Seed     int64

	stop        atomic.Bool
	cliWG       sync.WaitGroup
	opN         atomic.Int64
	OpCap       int64
	SkipOffline bool // scenarios that submit operations outside the recorded client history
	smu         sync.Mutex
	leaderHint  atomic.Value // string
	mu          sync.Mutex
}

func (x *Ctx) Step(format string, args ...interface{}) {
	s := fmt.Sprintf(format, args...)
	x.smu.Lock()
	x.Res.Steps = append(x.Res.Steps, s)
	x.smu.Unlock()
	x.M.Emit(mon.Event{Kind: mon.KFault, Str: s})
}

func (x *Ctx) Note(format string, args ...interface{}) {
	x.smu.Lock()
	x.Res.Notes = append(x.Res.Notes, fmt.Sprintf(format, args...))
	x.smu.Unlock()
}

func (x *Ctx) Cover(cell string) {
	x.smu.Lock()
	x.Res.Cover[cell]++
	x.smu.Unlock()
}

func (x *Ctx) NT(flag string) {
	x.smu.Lock()
	x.Res.Nontrivial[flag] = true
	x.smu.Unlock()
}

func (x *Ctx) Inconclusive(format string, args ...interface{}) {
	x.smu.Lock()
	if x.Res.Inconclusive == "" {
		x.Res.Inconclusive = fmt.Sprintf(format, args...)
	}
	x.smu.Unlock()
}

func (x *Ctx) Sleep(d time.Duration) { time.Sleep(d) }

// ET returns the election timeout of the cluster.
func (x *Ctx) ET() time.Duration { return x.C.Opts.ET }

type Scenario func(x *Ctx)

var Registry = map[string]Scenario{}

// ---------------------------------------------------------------- cluster set-up helpers

func ids(n int) []string {
	out := make([]string, n)
	for i := range out {
		out[i] = fmt.Sprintf("n%d", i+1)
	}
	return out
}

// StartCluster creates, bootstraps and starts the voters.
func (x *Ctx) StartCluster(voters []string) bool {
	cfg := &mon.Cfg{Index: 1, Members: map[string]bool{}}
	for _, v := range voters {
		cfg.Members[v] = true
	}
	x.M.Emit(mon.Event{Kind: mon.KBoot, Cfg: cfg})
	for _, id := range voters {
		n, err := x.C.AddNode(id)
		if err != nil {
			x.Inconclusive("AddNode %s: %v", id, err)
			return false
		}
		if err := n.Bootstrap(voters); err != nil {
			x.Inconclusive("Bootstrap %s: %v", id, err)
			return false
		}
	}
	for _, id := range voters {
		if err := x.C.Node(id).Start(); err != nil {
			x.Inconclusive("Start %s: %v", id, err)
			return false
		}
	}
	return true
}

// ---------------------------------------------------------------- clients

type ClientMix struct {
	WritePct, LinReadPct, LeaseReadPct int
	Timeouts                           []time.Duration
	ThinkMaxUs                         int
	LeaderBias                         int // percent of operations aimed at the believed leader
	Pad                                int
}

func (x *Ctx) believedLeader() string {
	// last node seen becoming leader that is still up
	x.M.Lock()
	var id string
	if n := len(x.M.BecameLeader); n > 0 {
		id = x.M.BecameLeader[n-1].Node
	}
	x.M.Unlock()
	return id
}

func (x *Ctx) StartClients(k int, mix ClientMix) {
	for i := 0; i < k; i++ {
		x.cliWG.Add(1)
		seed := x.Seed*1000 + int64(i) + 17
		go func(ci int, r *rand.Rand) {
			defer x.cliWG.Done()
			n := 0
			for !x.stop.Load() {
				if x.opN.Add(1) > x.OpCap {
					return
				}
				n++
				up := x.C.UpIDs()
				if len(up) == 0 {
					time.Sleep(2 * time.Millisecond)
					continue
				}
				target := up[r.Intn(len(up))]
				if r.Intn(100) < mix.LeaderBias {
					if l := x.believedLeader(); l != "" {
						target = l
					}
				}
				p := r.Intn(100)
				typ := "W"
				if p >= mix.WritePct {
					typ = "LR"
					if p >= mix.WritePct+mix.LinReadPct {
						typ = "SR"
					}
				}
				to := mix.Timeouts[r.Intn(len(mix.Timeouts))]
				id := fmt.Sprintf("%s%d.%d", strings.ToLower(typ), ci, n)
				x.C.Submit(ci, id, typ, target, to, mix.Pad)
				if mix.ThinkMaxUs > 0 {
					time.Sleep(time.Duration(r.Intn(mix.ThinkMaxUs+1)) * time.Microsecond)
				}
			}
		}(i, rand.New(rand.NewSource(seed)))
	}
}

func (x *Ctx) StopClients() {
	x.stop.Store(true)
	x.cliWG.Wait()
}

// ---------------------------------------------------------------- quiesce + finish

// Quiesce removes all faults, restarts everything that is down, and checks bounded progress (C15), counted in
// protocol steps seen by the network, not in seconds:
//
//	(a) within 40 candidacy rounds per voter there is a leader that then completes 20 heartbeat rounds unchallenged;
//	(b) every live member reaches the applied index that leader had, within 300 completed exchanges on its link;
//
// a wall-clock watchdog firing first makes the result inconclusive (returns false without a violation).
func (x *Ctx) Quiesce(bound time.Duration) bool {
	x.M.Emit(mon.Event{Kind: mon.KPhase, Str: "heal"})
	x.C.Net.Heal()
	// no further faults: disarm every planned crash that has not fired yet
	for _, id := range x.C.IDs() {
		x.C.Node(id).PlanCrash(nil)
	}
	time.Sleep(2 * time.Millisecond)
	for _, id := range x.C.IDs() {
		n := x.C.Node(id)
		if !n.IsUp() && !x.KeepDown[id] {
			n.WaitDown(time.Second)
			if err := n.Restart(); err != nil {
				x.Note("restart %s failed: %v", id, err)
				x.M.AddViolation(mon.Violation{Props: restartProps(err), Sig: "restart-failed", Node: id, Msg: fmt.Sprintf("node %s could not be created/started over its directory after %q: %v", id, n.LastCrash, err)})
			}
		}
	}
	x.StopClients()
	if bound < 45*time.Second {
		bound = 45 * time.Second
	}
	dl := time.Now().Add(bound)
	rv0, _, _ := x.M.Steps()
	nUp := len(x.C.UpIDs())
	leader, stable := "", false
	var starts0 int
	var exch0 map[[2]string]int
	var target uint64
	fail := func(sig, node, format string, args ...interface{}) bool {
		props := []string{"C15"}
		if nd := x.C.Node(node); nd != nil && nd.Crashes > 0 {
			props = append(props, "C14")
		}
		x.M.AddViolation(mon.Violation{Props: props, Sig: sig, Node: node, Msg: fmt.Sprintf(format, args...)})
		x.M.Emit(mon.Event{Kind: mon.KPhase, Str: "quiesce-failed"})
		return false
	}
	members := func(l string) []string {
		s := x.C.Node(l).Sample()
		var out []string
		if s == nil || s.Cfg == nil {
			return out
		}
		for id := range s.Cfg.Members {
			if nd := x.C.Node(id); nd != nil && nd.IsUp() && id != l {
				out = append(out, id)
			}
		}
		sort.Strings(out)
		return out
	}
	for time.Now().Before(dl) {
		if x.M.HasViolations() {
			// the run is already refuted; a diverged cluster need not converge
			x.M.Emit(mon.Event{Kind: mon.KPhase, Str: "quiesce-skipped"})
			return false
		}
		rv, starts, exch := x.M.Steps()
		l := x.C.Leader()
		if l == "" {
			leader, stable = "", false
			if rv-rv0 > 40*nUp {
				return fail("no-leader-within-bound", "", "no leader after %d candidacy rounds following the heal (%d nodes up)", rv-rv0, nUp)
			}
			time.Sleep(2 * time.Millisecond)
			continue
		}
		if l != leader || starts != starts0 {
			if leader == "" || l != leader {
				starts0 = starts
			}
			if l != leader {
				leader, stable = l, false
				exch0 = exch
				starts0 = starts
			} else if starts != starts0 {
				stable = false
				exch0 = exch
				starts0 = starts
			}
		}
		ms := members(l)
		if !stable {
			// 20 heartbeat rounds: every member link completed 20 exchanges since this leader was first seen
			minEx := 1 << 30
			for _, m := range ms {
				if d := exch[[2]string{l, m}] - exch0[[2]string{l, m}]; d < minEx {
					minEx = d
				}
			}
			if len(ms) == 0 {
				minEx = 20
			}
			if minEx >= 20 {
				stable = true
				exch0 = exch
				if s := x.C.Node(l).Sample(); s != nil {
					target = s.Applied
				}
			} else {
				if rv-rv0 > 80*nUp {
					return fail("no-stable-leader-within-bound", l, "leader %s did not complete 20 unchallenged heartbeat rounds within %d candidacy rounds after the heal", l, rv-rv0)
				}
				time.Sleep(2 * time.Millisecond)
				continue
			}
		}
		// (b) catch-up
		ls := x.C.Node(l).Sample()
		if ls == nil {
			continue
		}
		all := true
		for _, m := range ms {
			s := x.C.Node(m).Sample()
			if s != nil && s.Applied >= target && s.Applied == ls.Applied && s.Commit == ls.Commit {
				continue
			}
			all = false
			if d := exch[[2]string{l, m}] - exch0[[2]string{l, m}]; d > 300 && (s == nil || s.Applied < target) {
				ap := uint64(0)
				if s != nil {
					ap = s.Applied
				}
				tailMsgs := x.M.LinkTail(l, m, 12)
				return fail("member-stuck", m, "member %s did not reach applied index %d (it is at %d) within %d completed exchanges with stable leader %s; last exchanges (newest first): %s", m, target, ap, d, l, strings.Join(tailMsgs, " | "))
			}
		}
		if all && ls.Applied == ls.Commit && ls.Commit > 0 {
			x.M.Emit(mon.Event{Kind: mon.KPhase, Str: "quiesced"})
			x.count("c15.quiesce_ok", 1)
			return true
		}
		// a leader that keeps heartbeating but never commits what it has
		if len(ms) == 0 {
			time.Sleep(2 * time.Millisecond)
			continue
		}
		time.Sleep(2 * time.Millisecond)
	}
	x.M.Emit(mon.Event{Kind: mon.KPhase, Str: "quiesce-watchdog"})
	x.Inconclusive("bounded-progress watchdog (%v) fired before a step bound was reached", bound)
	return false
}

// FinalWrite submits one more write to the stable leader (C15 c): it must be acknowledged within 100 heartbeat
// rounds of that leader (counted as completed exchanges on its busiest link).
func (x *Ctx) FinalWrite(bound time.Duration) bool {
	dl := time.Now().Add(bound + 20*time.Second)
	_, _, exch0 := x.M.Steps()
	i := 0
	for time.Now().Before(dl) {
		l := x.C.Leader()
		if l == "" {
			time.Sleep(5 * time.Millisecond)
			continue
		}
		i++
		op := x.C.Submit(99, fmt.Sprintf("wfinal.%d", i), "W", l, 2*time.Second, 0)
		if op != nil && op.Outcome == "ok" {
			x.count("c15.final_write_ok", 1)
			x.M.Emit(mon.Event{Kind: mon.KPhase, Str: "final-ok"})
			return true
		}
		_, _, exch := x.M.Steps()
		maxd := 0
		for k, v := range exch {
			if k[0] == l {
				if d := v - exch0[k]; d > maxd {
					maxd = d
				}
			}
		}
		if maxd > 100 {
			out := "none"
			if op != nil {
				out = op.Outcome
			}
			x.M.AddViolation(mon.Violation{Props: []string{"C15"}, Sig: "write-stuck", Node: l, Msg: fmt.Sprintf("a write submitted to stable leader %s after the heal was not acknowledged within %d heartbeat exchanges (last outcome %s)", l, maxd, out)})
			return false
		}
	}
	x.Inconclusive("final-write watchdog fired before the step bound")
	return false
}

// Finish runs the end-of-run oracles and fills in the result.
func (x *Ctx) Finish() {
	if x.SkipOffline {
		return
	}
	st := oracle.Offline(x.M, 20*time.Second)
	x.Res.Offline = &st
	ws := oracle.Windows(x.M)
	if ws.C16Windows+ws.C17Windows > 0 {
		x.Res.Windows = &ws
		if ws.C16PrecondFail != "" {
			x.Inconclusive("%s", ws.C16PrecondFail)
		}
		if ws.C17PrecondFail != "" {
			x.Inconclusive("%s", ws.C17PrecondFail)
		}
		x.M.Lock()
		x.M.Counts["c16.windows"] += ws.C16Windows
		x.M.Counts["c17.windows"] += ws.C17Windows
		x.M.Counts["c17.lapsed_reads_judged"] += ws.C17LapsedReads
		x.M.Unlock()
	}
	if st.Porcupine == "unknown" {
		x.Note("porcupine timed out on %d operations (oracle B inconclusive, oracle A decided)", st.PorcupineOps)
	}
}

// TraceHash computes the abstract trace of the run.
func (x *Ctx) TraceHash() string {
	h := fnv.New64a()
	x.M.Lock()
	for _, ev := range x.M.BecameLeader {
		l := fmt.Sprintf("L:%s:%d", ev.Node, ev.Ents[0].Term)
		x.Res.Leaders = append(x.Res.Leaders, l)
		h.Write([]byte(l))
	}
	keys := []string{mon.KLogTrunc, mon.KNodeCrash, mon.KSnapClose, mon.KRestore, mon.KLogCompact, mon.KLogDiscard}
	for _, k := range keys {
		fmt.Fprintf(h, "%s=%d;", k, x.M.Counts[k])
	}
	x.M.Unlock()
	for _, s := range x.Res.Steps {
		h.Write([]byte(s))
	}
	return fmt.Sprintf("%016x", h.Sum64())
}

// ---------------------------------------------------------------- random schedule (W1)

type Profile struct {
	Voters       int
	Clients      int
	Steps        int
	Crash        bool
	Snapshots    bool
	Reads        bool
	LeaseReads   bool
	Torn         bool
	CrashBias    bool
	Bounce       bool // in-process Stop+Restart on the same object as a step kind
	Hold         bool // hold requests/replies of one link in a gate across later steps (leader changes, heals), release later
	StepGapMaxMs int
}

func pick(r *rand.Rand, xs []string) string { return xs[r.Intn(len(xs))] }

func subset(r *rand.Rand, xs []string, k int) []string {
	p := r.Perm(len(xs))
	out := make([]string, 0, k)
	for _, i := range p[:k] {
		out = append(out, xs[i])
	}
	sort.Strings(out)
	return out
}

func minus(all, sub []string) []string {
	m := map[string]bool{}
	for _, s := range sub {
		m[s] = true
	}
	var out []string
	for _, a := range all {
		if !m[a] {
			out = append(out, a)
		}
	}
	return out
}

var crashOps = []string{"log.append", "log.append", "log.trunc", "state.set", "state.set", "log.compact", "log.discard", "snap.new", "snap.write", "snap.close", "snap.discard"}

// RandomPlan returns a crash plan drawn from the seed.
func RandomPlan(r *rand.Rand, snapshots, torn bool) *shim.CrashPlan {
	ops := crashOps[:5]
	if snapshots {
		ops = crashOps
	}
	p := &shim.CrashPlan{Op: ops[r.Intn(len(ops))], Nth: 1 + r.Intn(6), After: r.Intn(2) == 0}
	if torn && p.Op == "log.append" && !p.After && r.Intn(2) == 0 {
		p.Torn = 1 + r.Intn(999)
	}
	return p
}

// RandomSchedule is the W1 workload: a seed-determined list of fault steps over a running cluster with clients.
func RandomSchedule(x *Ctx, pf Profile) {
	r := x.R
	all := ids(pf.Voters)
	if !x.StartCluster(all) {
		return
	}
	if x.C.WaitLeader(5*time.Second) == "" {
		x.Inconclusive("no initial leader within 5s")
		return
	}
	mix := ClientMix{WritePct: 100, Timeouts: []time.Duration{15 * time.Millisecond, 80 * time.Millisecond, 400 * time.Millisecond}, ThinkMaxUs: 3000, LeaderBias: 70}
	if pf.Reads {
		mix.WritePct, mix.LinReadPct = 50, 50
		if pf.LeaseReads {
			mix.WritePct, mix.LinReadPct, mix.LeaseReadPct = 40, 30, 30
		}
	}
	if pf.Snapshots {
		mix.Pad = 0
	}
	x.StartClients(pf.Clients, mix)

	gap := func() {
		g := pf.StepGapMaxMs
		if g == 0 {
			g = 80
		}
		time.Sleep(time.Duration(5+r.Intn(g)) * time.Millisecond)
	}
	var holds []*simnetRule
	for s := 0; s < pf.Steps; s++ {
		gap()
		kinds := []string{"partition", "oneway", "heal", "noise", "isolate-leader", "pause", "heal"}
		if pf.Crash {
			kinds = append(kinds, "crash", "crash-plan", "crash-plan", "restart", "restart", "crash-all")
		}
		if pf.Bounce {
			kinds = append(kinds, "bounce", "bounce", "bounce")
		}
		if pf.Hold {
			kinds = append(kinds, "hold", "hold", "hold", "release", "release")
		}
		if pf.CrashBias {
			// crash-point coverage runs: mostly planned crashes at storage boundaries, followed by restarts
			kinds = []string{"crash-plan", "crash-plan", "crash-plan", "crash-plan", "restart", "restart", "restart", "partition", "heal", "heal", "isolate-leader", "pause"}
		}
		switch k := kinds[r.Intn(len(kinds))]; k {
		case "partition":
			if len(all) < 2 {
				continue
			}
			ka := 1 + r.Intn(len(all)-1)
			a := subset(r, all, ka)
			b := minus(all, a)
			x.Step("partition %v | %v", a, b)
			x.C.Net.Partition(a, b)
		case "oneway":
			if len(all) < 2 {
				continue
			}
			a := subset(r, all, 1)
			b := minus(all, a)
			if r.Intn(2) == 0 {
				x.Step("cut %v -> %v", a, b)
				x.C.Net.CutOneWay(a, b)
			} else {
				x.Step("cut %v -> %v", b, a)
				x.C.Net.CutOneWay(b, a)
			}
		case "heal":
			x.Step("heal")
			if pf.Hold {
				x.C.Net.ClearLinks() // held messages stay held: they are delivered by a later "release" (or at the end)
			} else {
				x.C.Net.Heal()
			}
		case "hold":
			if len(all) < 2 || len(holds) >= 4 {
				continue
			}
			from := pick(r, all)
			kind := []string{"AE", "AE", "RV", "IS", ""}[r.Intn(5)]
			if l := x.C.Leader(); l != "" && kind != "RV" && r.Intn(4) > 0 {
				from = l // replication traffic comes from the leader
			}
			to := pick(r, minus(all, []string{from}))
			replies := r.Intn(3) > 0
			what := "requests"
			if replies {
				what = "replies to requests"
			}
			x.Step("hold up to %s %s %s -> %s", map[string]string{"": "all"}[kind]+kind, what, from, to)
			rule := x.C.Net.AddRule(&simnetRule{Name: "hold", Gate: simnetNewGate(), MaxHits: 1 + r.Intn(40), Match: func(m *mon.Msg, reply bool) bool {
				return reply == replies && m.From == from && m.To == to && (kind == "" || m.Kind == kind)
			}})
			holds = append(holds, rule)
			x.NT("held-messages")
		case "release":
			if len(holds) == 0 {
				continue
			}
			x.Step("release the oldest held messages (%d)", holds[0].Gate.HeldCount())
			x.C.Net.RemoveRule(holds[0])
			holds = holds[1:]
		case "noise":
			loss, delay, dup := r.Intn(30), r.Intn(8000), r.Intn(20)
			x.Step("noise loss=%d%% delay<=%dus dup=%d%%", loss, delay, dup)
			for _, a := range all {
				for _, b := range all {
					if a != b {
						x.C.Net.SetLink(a, b, func(l *simnetLink) { l.LossPct, l.RepLossPct, l.DelayMaxUs, l.DupPct = loss, loss/2, delay, dup })
					}
				}
			}
		case "isolate-leader":
			l := x.C.Leader()
			if l == "" || len(all) < 2 {
				continue
			}
			x.Step("isolate leader %s", l)
			x.C.Net.Partition([]string{l}, minus(all, []string{l}))
		case "pause":
			x.Step("pause")
			time.Sleep(time.Duration(r.Intn(3)+1) * x.ET())
		case "crash":
			up := x.C.UpIDs()
			if len(up) == 0 {
				continue
			}
			id := pick(r, up)
			x.Step("crash %s", id)
			x.C.Node(id).Crash("async")
			x.C.Node(id).WaitDown(time.Second)
		case "bounce":
			up := x.C.UpIDs()
			if len(up) == 0 {
				continue
			}
			id := pick(r, up)
			x.Step("bounce %s (Stop + Restart on the same object)", id)
			pause := time.Duration(0)
			if r.Intn(2) == 0 {
				pause = time.Duration(r.Intn(x.C.Opts.FSM.RestoreUs+x.C.Opts.FSM.SnapUs+3000)) * time.Microsecond
			}
			if err := x.C.Node(id).BounceAfter(pause); err != nil {
				x.M.AddViolation(mon.Violation{Props: []string{"C18"}, Sig: "restart-error", Node: id, Msg: fmt.Sprintf("Restart() after Stop() returned %v", err)})
			}
		case "crash-plan":
			up := x.C.UpIDs()
			if len(up) == 0 {
				continue
			}
			id := pick(r, up)
			p := RandomPlan(r, pf.Snapshots, pf.Torn)
			if pf.Bounce {
				kinds = append(kinds, "bounce", "bounce", "bounce")
			}
			if pf.CrashBias {
				p.Nth = 1 + r.Intn(2)
			}
			pos := "before"
			if p.After {
				pos = "after"
			}
			x.Step("plan crash %s %s %s #%d torn=%d", id, pos, p.Op, p.Nth, p.Torn)
			x.C.Node(id).PlanCrash(p)
		case "restart":
			var down []string
			for _, id := range all {
				if !x.C.Node(id).IsUp() {
					down = append(down, id)
				}
			}
			if len(down) == 0 {
				continue
			}
			id := pick(r, down)
			x.Step("restart %s", id)
			x.C.Node(id).WaitDown(time.Second)
			if err := x.C.Node(id).Restart(); err != nil {
				x.M.AddViolation(mon.Violation{Props: restartProps(err), Sig: "restart-failed", Node: id, Msg: fmt.Sprintf("node %s could not be created/started over its directory after %q: %v", id, x.C.Node(id).LastCrash, err)})
			}
		case "crash-all":
			x.Step("crash all")
			for _, id := range x.C.UpIDs() {
				x.C.Node(id).Crash("crash-all")
			}
			for _, id := range all {
				x.C.Node(id).WaitDown(time.Second)
			}
			time.Sleep(time.Duration(r.Intn(20)) * time.Millisecond)
			// restart a random majority (or all)
			k := len(all)/2 + 1 + r.Intn(len(all)-len(all)/2)
			sub := subset(r, all, k)
			x.Step("restart %v", sub)
			for _, id := range sub {
				if err := x.C.Node(id).Restart(); err != nil {
					x.M.AddViolation(mon.Violation{Props: restartProps(err), Sig: "restart-failed", Node: id, Msg: fmt.Sprintf("node %s could not be created/started over its directory after %q: %v", id, x.C.Node(id).LastCrash, err)})
				}
			}
		}
	}
	gap()
	conv := x.Quiesce(15 * time.Second)
	if !conv {
		x.Note("no convergence within the quiesce bound")
		x.NT("no-convergence")
	} else if !x.FinalWrite(5 * time.Second) {
		x.Note("final write not acknowledged")
		x.NT("no-final-write")
	}
}

// restartProps: a node that cannot be created over its directory breaks C14 (and C13 by construction of the
// storages); when the log is what cannot be reopened, also C12 and C06 (the persistent log is gone or corrupt).
func restartProps(err error) []string {
	props := []string{"C14", "C13"}
	if err != nil && strings.Contains(err.Error(), "log") {
		props = append(props, "C12", "C06")
	}
	return props
}
