package scen

import (
	"fmt"
	"math/rand"
	"path/filepath"
	"sync"
	"sync/atomic"
	"time"

	"github.com/jmsadair/raft"
	"github.com/jmsadair/raft/logging"

	"verif/harness/mon"
)

// W7 — race stress. The deciding oracle is the Go race detector (the binary is built with -race);
// these scenarios only make many goroutines call every public method while the nodes' own background
// activity, RPC handlers, role changes, snapshots and shutdowns run.

func scenRaceAPI(x *Ctx) {
	x.SkipOffline = true
	r := x.R
	n := 3 + r.Intn(3)
	all, _, ok := x.startStatic(n)
	if !ok {
		return
	}
	var stop atomic.Bool
	var wg sync.WaitGroup
	spawn := func(f func(rr *rand.Rand)) {
		wg.Add(1)
		seed := r.Int63()
		go func() {
			defer wg.Done()
			rr := rand.New(rand.NewSource(seed))
			for !stop.Load() {
				f(rr)
			}
		}()
	}
	pickUp := func(rr *rand.Rand) string {
		up := x.C.UpIDs()
		if len(up) == 0 {
			time.Sleep(time.Millisecond)
			return ""
		}
		return up[rr.Intn(len(up))]
	}
	for i := 0; i < 4; i++ {
		ci := i
		spawn(func(rr *rand.Rand) {
			t := pickUp(rr)
			if rr.Intn(100) < 70 {
				if l := x.believedLeader(); l != "" {
					t = l
				}
			}
			if t == "" {
				return
			}
			typ := []string{"W", "W", "LR", "SR"}[rr.Intn(4)]
			x.C.Submit(ci, nextOp(fmt.Sprintf("r%d", ci)), typ, t, time.Duration(5+rr.Intn(60))*time.Millisecond, rr.Intn(50))
		})
	}
	for i := 0; i < 2; i++ {
		spawn(func(rr *rand.Rand) {
			t := pickUp(rr)
			if t == "" {
				return
			}
			nd := x.C.Node(t)
			st := nd.R().Status()
			_ = st.State
			cfg := nd.R().Configuration()
			_ = cfg.String()
			time.Sleep(time.Duration(rr.Intn(300)) * time.Microsecond)
		})
	}
	// membership + bootstrap on running nodes
	spawn(func(rr *rand.Rand) {
		l := x.C.Leader()
		if l == "" {
			time.Sleep(2 * time.Millisecond)
			return
		}
		switch rr.Intn(4) {
		case 0:
			if x.C.Node("nv1") == nil {
				if nd, err := x.C.AddNode("nv1"); err == nil {
					nd.Start()
				}
			}
			x.C.Member(50, nextOp("add"), true, "nv1", rr.Intn(3) == 0, l, 30*time.Millisecond)
		case 1:
			x.C.Member(50, nextOp("rem"), false, "nv1", false, l, 30*time.Millisecond)
		case 2:
			t := pickUp(rr)
			if t != "" {
				x.C.Node(t).R().Bootstrap(map[string]string{t: t})
			}
		default:
			time.Sleep(time.Duration(rr.Intn(20)) * time.Millisecond)
		}
	})
	// life cycle + network
	deadline := time.Now().Add(time.Duration(x.P.Int("ms", 2500)) * time.Millisecond)
	for time.Now().Before(deadline) {
		time.Sleep(time.Duration(20+r.Intn(120)) * time.Millisecond)
		switch r.Intn(7) {
		case 0:
			id := pick(r, all)
			x.Step("bounce %s", id)
			x.C.Node(id).Bounce()
		case 1:
			id := pick(r, all)
			x.Step("stop+restart(new) %s", id)
			x.C.Node(id).Stop()
			x.C.Node(id).Restart()
		case 2:
			if l := x.C.Leader(); l != "" {
				x.Step("isolate %s", l)
				x.C.Net.Partition([]string{l}, x.others(l))
			}
		case 3:
			x.Step("heal")
			x.C.Net.Heal()
		case 4:
			id := pick(r, all)
			x.Step("crash+restart %s", id)
			x.C.Node(id).Crash("race")
			x.C.Node(id).WaitDown(time.Second)
			x.C.Node(id).Restart()
		default:
		}
	}
	stop.Store(true)
	wg.Wait()
	x.C.Net.Heal()
	x.NT("race-api")
}

// scenRaceGRPC: three real nodes with the bundled gRPC transport and default storages on loopback.
func scenRaceGRPC(x *Ctx) {
	r := x.R
	const n = 3
	ids := []string{"g1", "g2", "g3"}
	addrs := map[string]string{}
	for _, id := range ids {
		addrs[id] = freeAddr()
	}
	nodes := map[string]*raft.Raft{}
	var nmu sync.Mutex
	for _, id := range ids {
		f := &blobFSM{blob: make([]byte, 50000), want: true}
		nd, err := raft.NewRaft(id, addrs[id], f, filepath.Join(x.Root, id),
			raft.WithElectionTimeout(100*time.Millisecond), raft.WithHeartbeatInterval(15*time.Millisecond), raft.WithLeaseDuration(30*time.Millisecond), raft.WithLogLevel(logging.Fatal))
		if err != nil {
			x.Inconclusive("NewRaft: %v", err)
			return
		}
		if err := nd.Bootstrap(addrs); err != nil {
			x.Inconclusive("Bootstrap: %v", err)
			return
		}
		nodes[id] = nd
	}
	for _, id := range ids {
		if err := nodes[id].Start(); err != nil {
			x.Inconclusive("Start: %v", err)
			return
		}
	}
	var stop atomic.Bool
	var wg sync.WaitGroup
	for c := 0; c < 4; c++ {
		wg.Add(1)
		seed := r.Int63()
		go func(c int) {
			defer wg.Done()
			rr := rand.New(rand.NewSource(seed))
			for i := 0; !stop.Load(); i++ {
				nmu.Lock()
				nd := nodes[ids[rr.Intn(n)]]
				nmu.Unlock()
				switch rr.Intn(5) {
				case 0, 1, 2:
					nd.SubmitOperation([]byte(fmt.Sprintf("g%d.%d", c, i)), raft.OperationType(rr.Intn(3)), time.Duration(5+rr.Intn(50))*time.Millisecond).Await()
				case 3:
					st := nd.Status()
					_ = st.State
					cfg := nd.Configuration()
					_ = cfg.String()
				default:
					nd.AddServer("g9", "127.0.0.1:1", false, 10*time.Millisecond).Await()
					nd.RemoveServer("g9", 10*time.Millisecond).Await()
				}
			}
		}(c)
	}
	deadline := time.Now().Add(time.Duration(x.P.Int("ms", 2500)) * time.Millisecond)
	for time.Now().Before(deadline) {
		time.Sleep(time.Duration(100+r.Intn(300)) * time.Millisecond)
		id := ids[r.Intn(n)]
		nmu.Lock()
		nd := nodes[id]
		nmu.Unlock()
		x.Step("stop+restart %s", id)
		nd.Stop()
		if err := nd.Restart(); err != nil {
			x.Note("Restart %s: %v", id, err)
		}
	}
	stop.Store(true)
	wg.Wait()
	for _, id := range ids {
		nodes[id].Stop()
	}
	x.NT("race-grpc")
}

func init() {
	Registry["race.api"] = scenRaceAPI
	Registry["race.stop"] = scenRaceStop
	Registry["race.grpc"] = scenRaceGRPC
}

// scenRaceStop: Stop() while requests of the node are in flight. Replies to the leader's InstallSnapshot /
// AppendEntries requests and to a candidate's vote requests are held in a gate; one goroutine stops (and restarts)
// the node, an unrelated timer releases the replies somewhere inside the Stop call (Stop waits for the tickers,
// i.e. up to two election timeouts), so the sender goroutines resume while Stop closes the log and the snapshot
// files. The deciding oracle is the race detector.
func scenRaceStop(x *Ctx) {
	x.SkipOffline = true
	r := x.R
	_, l, ok := x.startStatic(3)
	if !ok {
		return
	}
	thr := x.C.Opts.FSM.SnapThreshold
	if thr <= 0 {
		thr = 5
	}
	for round := 0; round < 6; round++ {
		l = x.C.WaitLeader(3 * time.Second)
		if l == "" {
			break
		}
		f := pick(r, x.others(l))
		x.Step("round %d: isolate %s, leader %s moves past a snapshot", round, f, l)
		x.C.Net.Partition([]string{f}, x.others(f))
		x.Writes(1, l, 2*thr+3, 500*time.Millisecond)
		gate := simnetNewGate()
		who := l
		if round%3 == 2 {
			who = f // the isolated node campaigns: its vote requests are what is in flight
		}
		var heldIS atomic.Int32
		rule := x.C.Net.AddRule(&simnetRule{Name: "hold-replies", Gate: gate, Match: func(m *mon.Msg, reply bool) bool {
			if reply && m.From == who && m.Kind == "IS" {
				heldIS.Add(1)
			}
			return reply && m.From == who
		}})
		x.C.Net.ClearLinks()
		x.WaitFor(800*time.Millisecond, func() bool {
			if who == l {
				return heldIS.Load() > 0 // a snapshot transfer is in flight: the leader holds an open snapshot file for the follower
			}
			return gate.HeldCount() > 0
		})
		if heldIS.Load() > 0 {
			x.count("race.stops_with_snapshot_transfer_in_flight", 1)
		}
		var wg sync.WaitGroup
		wg.Add(2)
		pause := time.Duration(r.Intn(3)) * time.Millisecond
		go func() {
			defer wg.Done()
			x.C.Node(who).BounceAfter(pause)
		}()
		d := time.Duration(r.Int63n(int64(2*x.ET()))) + time.Millisecond
		go func() {
			defer wg.Done()
			time.Sleep(d)
			x.C.Net.RemoveRule(rule)
		}()
		wg.Wait()
		x.count("race.stops_with_requests_in_flight", 1)
		x.C.Net.Heal()
		time.Sleep(2 * x.ET())
	}
	x.count("race.runs", 1)
	x.NT("race-stop")
}
