package scen

import (
	"bytes"
	"fmt"
	"io"
	"math/rand"
	"os"
	"os/exec"
	"path/filepath"
	"strings"
	"time"

	"github.com/jmsadair/raft"
	"github.com/jmsadair/raft/logging"

	"verif/harness/crashfs"
	"verif/harness/mon"
)

// ---------------------------------------------------------------- log workload + model

type Ent struct {
	Index, Term uint64
	Type        uint32
	Data        []byte
}

type LogOp struct {
	Kind  string // append1 appendN trunc compact discard close reopen
	Ents  []Ent
	Index uint64
	Term  uint64
}

type LogModel struct {
	Base Ent
	Ents []Ent
}

func (m *LogModel) last() Ent {
	if len(m.Ents) > 0 {
		return m.Ents[len(m.Ents)-1]
	}
	return m.Base
}

func (m *LogModel) clone() LogModel {
	return LogModel{Base: m.Base, Ents: append([]Ent(nil), m.Ents...)}
}

func (m *LogModel) apply(op LogOp) {
	switch op.Kind {
	case "append1", "appendN":
		m.Ents = append(m.Ents, op.Ents...)
	case "trunc":
		m.Ents = m.Ents[:op.Index-m.Base.Index-1]
	case "compact":
		k := op.Index - m.Base.Index
		e := m.Ents[k-1]
		m.Base = Ent{Index: e.Index, Term: e.Term}
		m.Ents = append([]Ent(nil), m.Ents[k:]...)
	case "discard":
		m.Base = Ent{Index: op.Index, Term: op.Term}
		m.Ents = nil
	}
}

func randData(r *rand.Rand) []byte {
	var n int
	switch r.Intn(6) {
	case 0:
		n = 0
	case 1:
		n = 1 + r.Intn(4)
	case 5:
		n = 100 + r.Intn(300)
	default:
		n = 5 + r.Intn(40)
	}
	b := make([]byte, n)
	r.Read(b)
	return b
}

// GenLog produces a seed-determined operation sequence that is valid against the model.
func GenLog(seed int64, n int) []LogOp {
	r := rand.New(rand.NewSource(seed))
	var m LogModel
	var ops []LogOp
	mk := func(k int) []Ent {
		var es []Ent
		l := m.last()
		for i := 0; i < k; i++ {
			t := l.Term
			if r.Intn(3) == 0 {
				t += uint64(1 + r.Intn(2))
			}
			if t == 0 {
				t = 1
			}
			e := Ent{Index: l.Index + 1, Term: t, Type: uint32(r.Intn(3)), Data: randData(r)}
			es = append(es, e)
			l = e
		}
		return es
	}
	for len(ops) < n {
		var op LogOp
		switch p := r.Intn(100); {
		case p < 30:
			op = LogOp{Kind: "append1", Ents: mk(1)}
		case p < 55:
			op = LogOp{Kind: "appendN", Ents: mk(1 + r.Intn(4))}
		case p < 68:
			if len(m.Ents) == 0 {
				continue
			}
			op = LogOp{Kind: "trunc", Index: m.Base.Index + 1 + uint64(r.Intn(len(m.Ents)))}
		case p < 78:
			if len(m.Ents) == 0 {
				continue
			}
			op = LogOp{Kind: "compact", Index: m.Base.Index + 1 + uint64(r.Intn(len(m.Ents)))}
		case p < 84:
			l := m.last()
			op = LogOp{Kind: "discard", Index: l.Index + uint64(r.Intn(4)), Term: l.Term + uint64(r.Intn(2))}
			if op.Term == 0 {
				op.Term = 1
			}
		case p < 96:
			op = LogOp{Kind: "reopen"}
		default:
			op = LogOp{Kind: "close"}
		}
		m.apply(op)
		ops = append(ops, op)
	}
	return ops
}

func toEntry(e Ent) *raft.LogEntry {
	return raft.NewLogEntry(e.Index, e.Term, append([]byte(nil), e.Data...), raft.LogEntryType(e.Type))
}

type marker struct{ f *os.File }

func (m marker) mark(format string, args ...interface{}) {
	fmt.Fprintf(m.f, "VMARK "+format+"\n", args...)
}

// StoreWork is the child side: runs under strace, performs the workload with markers.
func StoreWork(kind string, seed int64, dir, markerPath string, n int) int {
	mf, err := os.OpenFile(markerPath, os.O_CREATE|os.O_WRONLY|os.O_APPEND, 0o644)
	if err != nil {
		fmt.Fprintln(os.Stderr, err)
		return 2
	}
	mk := marker{mf}
	switch kind {
	case "log":
		return workLog(mk, seed, dir, n)
	case "state":
		return workState(mk, seed, dir, n)
	case "snap":
		return workSnap(mk, seed, dir, n)
	}
	return 2
}

func workLog(mk marker, seed int64, dir string, n int) int {
	ops := GenLog(seed, n)
	open := func() (raft.Log, error) {
		l, err := raft.NewLog(dir)
		if err != nil {
			return nil, err
		}
		if err := l.Open(); err != nil {
			return nil, err
		}
		if err := l.Replay(); err != nil {
			return nil, err
		}
		return l, nil
	}
	mk.mark("BEGIN 0 open")
	l, err := open()
	if err != nil {
		mk.mark("END 0 err %v", err)
		return 1
	}
	mk.mark("END 0 ok")
	closed := false
	for i, op := range ops {
		k := i + 1
		if closed && op.Kind != "reopen" && op.Kind != "close" {
			// operations on a closed log are not part of this workload: reopen first (not marked as an op)
			mk.mark("BEGIN %d.0 implicit-reopen", k)
			l, err = open()
			mk.mark("END %d.0 ok", k)
			if err != nil {
				return 1
			}
			closed = false
		}
		mk.mark("BEGIN %d %s", k, op.Kind)
		switch op.Kind {
		case "append1":
			err = l.AppendEntry(toEntry(op.Ents[0]))
		case "appendN":
			es := make([]*raft.LogEntry, len(op.Ents))
			for j, e := range op.Ents {
				es[j] = toEntry(e)
			}
			err = l.AppendEntries(es)
		case "trunc":
			err = l.Truncate(op.Index)
		case "compact":
			err = l.Compact(op.Index)
		case "discard":
			err = l.DiscardEntries(op.Index, op.Term)
		case "close":
			err = l.Close()
			closed = true
		case "reopen":
			if !closed {
				l.Close()
			}
			l, err = open()
			closed = false
		}
		if err != nil {
			mk.mark("END %d err %v", k, err)
			return 1
		}
		mk.mark("END %d ok", k)
	}
	return 0
}

// readLog reads a reopened log back through its public API.
func readLog(l raft.Log) (LogModel, error) {
	var m LogModel
	bi, bt, ok := raft.VerifLogBase(l)
	if !ok {
		return m, fmt.Errorf("log has no placeholder entry")
	}
	if want := l.NextIndex() - uint64(l.Size()) - 1; want != bi {
		return m, fmt.Errorf("NextIndex/Size imply base %d, placeholder says %d", want, bi)
	}
	m.Base = Ent{Index: bi, Term: bt}
	for i := bi + 1; i <= l.LastIndex(); i++ {
		e, err := l.GetEntry(i)
		if err != nil {
			return m, fmt.Errorf("GetEntry(%d): %v", i, err)
		}
		m.Ents = append(m.Ents, Ent{Index: e.Index, Term: e.Term, Type: uint32(e.EntryType), Data: e.Data})
	}
	if len(m.Ents) > 0 {
		if l.LastTerm() != m.Ents[len(m.Ents)-1].Term {
			return m, fmt.Errorf("LastTerm %d != term of last entry", l.LastTerm())
		}
	}
	return m, nil
}

func sameEnt(a, b Ent) bool {
	return a.Index == b.Index && a.Term == b.Term && a.Type == b.Type && bytes.Equal(a.Data, b.Data)
}

func sameLog(a, b LogModel) bool {
	if a.Base.Index != b.Base.Index || a.Base.Term != b.Base.Term || len(a.Ents) != len(b.Ents) {
		return false
	}
	for i := range a.Ents {
		if !sameEnt(a.Ents[i], b.Ents[i]) {
			return false
		}
	}
	return true
}

func descLog(m LogModel) string {
	var sb strings.Builder
	fmt.Fprintf(&sb, "base(%d,%d)", m.Base.Index, m.Base.Term)
	for _, e := range m.Ents {
		fmt.Fprintf(&sb, " (%d,%d,y%d,%dB)", e.Index, e.Term, e.Type, len(e.Data))
	}
	return sb.String()
}

func openLogAt(dir string) (l raft.Log, err error) {
	defer func() {
		if p := recover(); p != nil {
			err = fmt.Errorf("panic: %v", p)
		}
	}()
	l, err = raft.NewLog(dir)
	if err != nil {
		return nil, fmt.Errorf("NewLog: %w", err)
	}
	if err = l.Open(); err != nil {
		return nil, fmt.Errorf("Open: %w", err)
	}
	if err = l.Replay(); err != nil {
		return nil, fmt.Errorf("Replay: %w", err)
	}
	return l, nil
}

// judgeLogImage: C12's oracle on one crash image. accept = admissible model states.
func judgeLogImage(img string, accept []LogModel) (string, string) {
	l, err := openLogAt(img)
	if err != nil {
		return "reopen-failed", err.Error()
	}
	got, err := readLog(l)
	if err != nil {
		l.Close()
		return "readback-failed", err.Error()
	}
	okState := false
	for _, a := range accept {
		if sameLog(got, a) {
			okState = true
			break
		}
	}
	if !okState {
		l.Close()
		exp := make([]string, 0, len(accept))
		for _, a := range accept {
			exp = append(exp, descLog(a))
		}
		if len(exp) > 3 {
			exp = append(exp[:2], fmt.Sprintf("... %d more (prefixes of the in-flight append)", len(exp)-2))
		}
		return "wrong-content", fmt.Sprintf("reopened log = %s; admissible: %s", descLog(got), strings.Join(exp, " | "))
	}
	// keeps working: more operations and another reopen cycle
	sig, msg := func() (sig, msg string) {
		defer func() {
			if p := recover(); p != nil {
				sig, msg = "followup-panic", fmt.Sprint(p)
			}
		}()
		want := got.clone()
		// first remove the newest entry that was loaded from disk: this exercises what the reopened log
		// believes about the position of records it did not write itself
		if len(want.Ents) > 0 {
			victim := want.Ents[len(want.Ents)-1]
			if err := l.Truncate(victim.Index); err != nil {
				return "followup-failed", "Truncate(existing): " + err.Error()
			}
			want.Ents = want.Ents[:len(want.Ents)-1]
		}
		last := want.last()
		t := last.Term
		if t == 0 {
			t = 1
		}
		e1 := Ent{Index: last.Index + 1, Term: t, Type: 1, Data: []byte("after-crash-1")}
		e2 := Ent{Index: last.Index + 2, Term: t + 1, Type: 0, Data: nil}
		e3 := Ent{Index: last.Index + 3, Term: t + 1, Type: 2, Data: []byte("x")}
		if err := l.AppendEntry(toEntry(e1)); err != nil {
			return "followup-failed", "AppendEntry: " + err.Error()
		}
		if err := l.AppendEntries([]*raft.LogEntry{toEntry(e2), toEntry(e3)}); err != nil {
			return "followup-failed", "AppendEntries: " + err.Error()
		}
		if err := l.Truncate(e3.Index); err != nil {
			return "followup-failed", "Truncate: " + err.Error()
		}
		want.Ents = append(want.Ents, e1, e2)
		if err := l.Close(); err != nil {
			return "followup-failed", "Close: " + err.Error()
		}
		l2, err := openLogAt(img)
		if err != nil {
			return "followup-reopen-failed", err.Error()
		}
		defer l2.Close()
		got2, err := readLog(l2)
		if err != nil {
			return "followup-readback-failed", err.Error()
		}
		if !sameLog(got2, want) {
			return "followup-wrong-content", fmt.Sprintf("after 3 more operations and a reopen: %s; expected %s", descLog(got2), descLog(want))
		}
		return "", ""
	}()
	return sig, msg
}

// ---------------------------------------------------------------- state workload

type StateOp struct {
	Kind string // set reopen
	Term uint64
	Vote string
}

func GenState(seed int64, n int) []StateOp {
	r := rand.New(rand.NewSource(seed))
	var ops []StateOp
	term := uint64(0)
	votes := []string{"", "n1", "n2", "a-much-longer-candidate-identifier-0123456789", "nœud-3"}
	for len(ops) < n {
		if r.Intn(5) == 0 {
			ops = append(ops, StateOp{Kind: "reopen"})
			continue
		}
		term += uint64(r.Intn(3))
		ops = append(ops, StateOp{Kind: "set", Term: term, Vote: votes[r.Intn(len(votes))]})
	}
	return ops
}

func workState(mk marker, seed int64, dir string, n int) int {
	ops := GenState(seed, n)
	mk.mark("BEGIN 0 open")
	s, err := raft.NewStateStorage(dir)
	if err != nil {
		return 1
	}
	mk.mark("END 0 ok")
	for i, op := range ops {
		k := i + 1
		mk.mark("BEGIN %d %s", k, op.Kind)
		switch op.Kind {
		case "set":
			err = s.SetState(op.Term, op.Vote)
		case "reopen":
			s, err = raft.NewStateStorage(dir)
			if err == nil {
				_, _, err = s.State()
			}
		}
		if err != nil {
			mk.mark("END %d err %v", k, err)
			return 1
		}
		mk.mark("END %d ok", k)
	}
	return 0
}

type nopFSM struct{ restored int }

func (f *nopFSM) Apply(*raft.Operation) interface{} { return nil }
func (f *nopFSM) Snapshot(io.Writer) error          { return nil }
func (f *nopFSM) Restore(r io.Reader) error {
	b, err := io.ReadAll(r)
	f.restored = len(b)
	return err
}
func (f *nopFSM) NeedSnapshot(int) bool { return false }

// newRaftOver checks that a node can be constructed over the image at the first attempt.
func newRaftOver(img string) (err error) {
	defer func() {
		if p := recover(); p != nil {
			err = fmt.Errorf("panic: %v", p)
		}
	}()
	r, err := raft.NewRaft("n1", "127.0.0.1:0", &nopFSM{}, img, raft.WithLogLevel(logging.Fatal))
	if err != nil {
		return err
	}
	_ = r
	return nil
}

func judgeStateImage(img string, accept [][2]interface{}) (string, string) {
	var sig, msg string
	func() {
		defer func() {
			if p := recover(); p != nil {
				sig, msg = "state-panic", fmt.Sprint(p)
			}
		}()
		s, err := raft.NewStateStorage(img)
		if err != nil {
			sig, msg = "state-reopen-failed", "NewStateStorage: "+err.Error()
			return
		}
		t, v, err := s.State()
		if err != nil {
			sig, msg = "state-reopen-failed", "State(): "+err.Error()
			return
		}
		ok := false
		for _, a := range accept {
			if a[0].(uint64) == t && a[1].(string) == v {
				ok = true
			}
		}
		if !ok {
			sig, msg = "state-wrong-value", fmt.Sprintf("State() = (%d,%q); admissible: %v", t, v, accept)
			return
		}
		// keeps working
		if err := s.SetState(t+1, "after-crash"); err != nil {
			sig, msg = "state-followup-failed", err.Error()
			return
		}
		s2, err := raft.NewStateStorage(img)
		if err != nil {
			sig, msg = "state-followup-failed", err.Error()
			return
		}
		if t2, v2, err := s2.State(); err != nil || t2 != t+1 || v2 != "after-crash" {
			sig, msg = "state-followup-wrong", fmt.Sprintf("(%d,%q,%v)", t2, v2, err)
		}
	}()
	if sig != "" {
		return sig, msg
	}
	if err := newRaftOver(img); err != nil {
		return "newraft-failed", "NewRaft over the image: " + err.Error()
	}
	return "", ""
}

// ---------------------------------------------------------------- snapshot workload

type SnapOp struct {
	Kind  string // new write close discard get reopen
	Index uint64
	Term  uint64
	Cfg   []byte
	Data  []byte
}

type SnapRec struct {
	Index, Term uint64
	Cfg         []byte
	Data        []byte
}

func GenSnap(seed int64, nSnaps int) []SnapOp {
	r := rand.New(rand.NewSource(seed))
	var ops []SnapOp
	idx, term := uint64(0), uint64(1)
	sizes := []int{0, 1, 100, 32*1024 - 1, 32 * 1024, 32*1024 + 1, 70000}
	for s := 0; s < nSnaps; s++ {
		idx += uint64(1 + r.Intn(5))
		term += uint64(r.Intn(2))
		// a real encoded configuration (single member: protobuf map order is then deterministic)
		cfg := encodeCfg(fmt.Sprintf("node-%d", r.Intn(1000)), idx)
		ops = append(ops, SnapOp{Kind: "new", Index: idx, Term: term, Cfg: cfg})
		total := sizes[r.Intn(len(sizes))]
		if nSnaps > 12 {
			total = r.Intn(200)
		}
		chunks := 1 + r.Intn(3)
		for c := 0; c < chunks && total > 0; c++ {
			n := total / (chunks - c)
			if c == chunks-1 {
				n = total
			}
			d := make([]byte, n)
			r.Read(d)
			ops = append(ops, SnapOp{Kind: "write", Data: d})
			total -= n
			if r.Intn(4) == 0 {
				// look-up while this writer is still open: must not see the unfinished snapshot
				ops = append(ops, SnapOp{Kind: "get"})
			}
		}
		if r.Intn(4) == 0 {
			ops = append(ops, SnapOp{Kind: "get"})
		}
		if r.Intn(5) == 0 {
			ops = append(ops, SnapOp{Kind: "discard"})
		} else {
			ops = append(ops, SnapOp{Kind: "close"})
		}
		if r.Intn(3) == 0 {
			ops = append(ops, SnapOp{Kind: "get"})
		}
		if r.Intn(6) == 0 {
			ops = append(ops, SnapOp{Kind: "reopen"})
		}
	}
	return ops
}

var cfgCodec raft.Transport

func encodeCfg(id string, index uint64) []byte {
	if cfgCodec == nil {
		cfgCodec, _ = raft.NewTransport("127.0.0.1:0")
	}
	c := raft.NewConfiguration(index, map[string]string{id: "127.0.0.1:1"})
	b, err := cfgCodec.EncodeConfiguration(c)
	if err != nil {
		panic(err)
	}
	return b
}

func workSnap(mk marker, seed int64, dir string, n int) int {
	ops := GenSnap(seed, n)
	mk.mark("BEGIN 0 open")
	st, err := raft.NewSnapshotStorage(dir)
	if err != nil {
		return 1
	}
	mk.mark("END 0 ok")
	var f raft.SnapshotFile
	var cur, w *SnapRec // the child's own model: newest closed snapshot, snapshot being written
	for i, op := range ops {
		k := i + 1
		mk.mark("BEGIN %d %s", k, op.Kind)
		switch op.Kind {
		case "new":
			f, err = st.NewSnapshotFile(op.Index, op.Term, op.Cfg)
			w = &SnapRec{Index: op.Index, Term: op.Term, Cfg: op.Cfg}
		case "write":
			_, err = f.Write(op.Data)
			w.Data = append(w.Data, op.Data...)
		case "close":
			err = f.Close()
			cur, w = w, nil
		case "discard":
			err = f.Discard()
			w = nil
		case "get":
			var g raft.SnapshotFile
			g, err = st.SnapshotFile()
			var got *SnapRec
			if err == nil && g != nil {
				var data []byte
				data, err = io.ReadAll(g)
				md := g.Metadata()
				got = &SnapRec{Index: md.LastIncludedIndex, Term: md.LastIncludedTerm, Cfg: md.Configuration, Data: data}
				g.Close()
			}
			// no crash involved: the look-up must return exactly the newest CLOSED snapshot
			if err == nil {
				switch {
				case (got == nil) != (cur == nil):
					err = fmt.Errorf("SnapshotFile() returned %v, newest closed snapshot is %v (a writer is open: %v)", got != nil, cur != nil, w != nil)
				case got != nil && (got.Index != cur.Index || got.Term != cur.Term || !bytes.Equal(got.Data, cur.Data)):
					err = fmt.Errorf("SnapshotFile() returned (index %d, %d bytes), newest closed snapshot is (index %d, %d bytes); a writer is open: %v", got.Index, len(got.Data), cur.Index, len(cur.Data), w != nil)
				}
			}
		case "reopen":
			st, err = raft.NewSnapshotStorage(dir)
		}
		if err != nil {
			mk.mark("END %d err %v", k, err)
			return 1
		}
		mk.mark("END %d ok", k)
	}
	return 0
}

func judgeSnapImage(img string, accept []*SnapRec) (string, string) {
	var sig, msg string
	func() {
		defer func() {
			if p := recover(); p != nil {
				sig, msg = "snap-panic", fmt.Sprint(p)
			}
		}()
		st, err := raft.NewSnapshotStorage(img)
		if err != nil {
			sig, msg = "snap-reopen-failed", "NewSnapshotStorage: "+err.Error()
			return
		}
		f, err := st.SnapshotFile()
		if err != nil {
			sig, msg = "snap-reopen-failed", "SnapshotFile(): "+err.Error()
			return
		}
		var got *SnapRec
		if f != nil {
			md := f.Metadata()
			data, rerr := io.ReadAll(f)
			f.Close()
			if rerr != nil {
				sig, msg = "snap-read-failed", rerr.Error()
				return
			}
			got = &SnapRec{Index: md.LastIncludedIndex, Term: md.LastIncludedTerm, Cfg: md.Configuration, Data: data}
		}
		ok := false
		for _, a := range accept {
			if (a == nil) != (got == nil) {
				continue
			}
			if a == nil || (a.Index == got.Index && a.Term == got.Term && bytes.Equal(a.Cfg, got.Cfg) && bytes.Equal(a.Data, got.Data)) {
				ok = true
			}
		}
		if !ok {
			d := "none"
			if got != nil {
				d = fmt.Sprintf("(index %d, term %d, %d bytes)", got.Index, got.Term, len(got.Data))
			}
			var exp []string
			for _, a := range accept {
				if a == nil {
					exp = append(exp, "none")
				} else {
					exp = append(exp, fmt.Sprintf("(index %d, term %d, %d bytes)", a.Index, a.Term, len(a.Data)))
				}
			}
			sig, msg = "snap-wrong-snapshot", fmt.Sprintf("SnapshotFile() = %s; admissible: %s", d, strings.Join(exp, " | "))
			return
		}
		// keeps working: a further snapshot can be written and is then the newest
		nf, err := st.NewSnapshotFile(1<<40, 7, []byte("c"))
		if err != nil {
			sig, msg = "snap-followup-failed", err.Error()
			return
		}
		nf.Write([]byte("after-crash"))
		if err := nf.Close(); err != nil {
			sig, msg = "snap-followup-failed", err.Error()
			return
		}
		st2, err := raft.NewSnapshotStorage(img)
		if err != nil {
			sig, msg = "snap-followup-failed", err.Error()
			return
		}
		g, err := st2.SnapshotFile()
		if err != nil || g == nil || g.Metadata().LastIncludedIndex != 1<<40 {
			sig, msg = "snap-followup-wrong", fmt.Sprintf("newest snapshot after a follow-up write is not the one just written (%v)", err)
			return
		}
		g.Close()
	}()
	return sig, msg
}

// ---------------------------------------------------------------- sweep (parent side)

const straceSet = "openat,open,creat,read,pread64,write,pwrite64,writev,pwritev,lseek,ftruncate,truncate,rename,renameat,renameat2,unlink,unlinkat,rmdir,mkdir,mkdirat,close,fsync,fdatasync,link,linkat,symlink,symlinkat,fallocate,copy_file_range,sendfile"

type window struct {
	k      string // API call number ("3", "3.0")
	kind   string
	inside bool
}

func prefixes(n int) []int {
	var out []int
	if n <= 128 {
		for i := 1; i < n; i++ {
			out = append(out, i)
		}
		return out
	}
	for i := 1; i < n; i++ {
		if i <= 8 || i%64 == 0 || i >= n-8 {
			out = append(out, i)
		}
	}
	return out
}

// StoreSweep runs one storage workload under strace and judges every crash image.
func StoreSweep(x *Ctx, kind string) {
	n := x.P.Int("ops", 10)
	work := filepath.Join(x.Root, "data")
	os.MkdirAll(filepath.Dir(work), 0o755)
	markerPath := filepath.Join(x.Root, "markers")
	trace := filepath.Join(x.Root, "trace.txt")
	self, _ := os.Executable()
	cmd := exec.Command("strace", "-f", "-o", trace, "-xx", "-s", "8388608", "-e", "trace="+straceSet,
		self, "-storework", kind, "-seed", fmt.Sprint(x.Seed), "-dir", work, "-marker", markerPath, "-n", fmt.Sprint(n))
	cmd.Env = append(os.Environ(), "GOMAXPROCS=2")
	var stderr bytes.Buffer
	cmd.Stderr = &stderr
	start := time.Now()
	err := cmd.Run()
	if err != nil {
		// the workload itself failed without any crash: an API call returned an error on a healthy directory
		x.Note("workload exit: %v %s", err, stderr.String())
	}
	x.Res.Counts = map[string]int{}
	calls, perr := crashfs.Parse(trace)
	if perr != nil {
		x.Inconclusive("cannot parse strace log: %v", perr)
		return
	}
	ops, unknown := crashfs.Extract(calls, work, markerPath)
	if len(unknown) > 0 {
		x.Inconclusive("unrecognised mutating syscalls: %v", unknown[:1])
		return
	}
	if len(ops) == 0 {
		x.Inconclusive("empty trace (strace unavailable?): %v %s", err, stderr.String())
		return
	}
	_ = start
	// self-validation: full replay must reproduce the directory the child left
	full := filepath.Join(x.Root, "full")
	os.MkdirAll(full, 0o755)
	for _, op := range ops {
		if op.Mutating() {
			if e := crashfs.Apply(full, op, -1); e != nil {
				x.Inconclusive("replay failed at trace line %d (%s %s): %v", op.Line, op.Kind, op.Path, e)
				return
			}
		}
	}
	if same, why := crashfs.SameTree(full, work); !same {
		x.Inconclusive("replayed image differs from the real directory: %s", why)
		return
	}
	x.count("traces_validated", 1)
	os.RemoveAll(full)

	// models per API call
	var logOps []LogOp
	var stOps []StateOp
	var snOps []SnapOp
	switch kind {
	case "log":
		logOps = GenLog(x.Seed, n)
	case "state":
		stOps = GenState(x.Seed, n)
	case "snap":
		snOps = GenSnap(x.Seed, n)
	}
	// model state after call k (k = 0 is the initial open)
	logAfter := []LogModel{{}}
	{
		var m LogModel
		for _, op := range logOps {
			m.apply(op)
			logAfter = append(logAfter, m.clone())
		}
	}
	stAfter := [][2]interface{}{{uint64(0), ""}}
	{
		cur := [2]interface{}{uint64(0), ""}
		for _, op := range stOps {
			if op.Kind == "set" {
				cur = [2]interface{}{op.Term, op.Vote}
			}
			stAfter = append(stAfter, cur)
		}
	}
	snAfter := []*SnapRec{nil}
	var snOpen []*SnapRec // file being written at call k (after it)
	{
		var cur, w *SnapRec
		snOpen = append(snOpen, nil)
		for _, op := range snOps {
			switch op.Kind {
			case "new":
				w = &SnapRec{Index: op.Index, Term: op.Term, Cfg: op.Cfg}
			case "write":
				w = &SnapRec{Index: w.Index, Term: w.Term, Cfg: w.Cfg, Data: append(append([]byte(nil), w.Data...), op.Data...)}
			case "close":
				cur, w = w, nil
			case "discard":
				w = nil
			}
			snAfter = append(snAfter, cur)
			snOpen = append(snOpen, w)
		}
	}

	img := filepath.Join(x.Root, "img")
	os.MkdirAll(img, 0o755)
	scratch := filepath.Join(x.Root, "t")
	cur := 0        // number of the last API call that has begun (top-level)
	inside := false // between BEGIN cur and END cur
	lastEndOK := true
	images := 0
	distinctImg := map[string]bool{}
	violSeen := map[string]bool{}

	judge := func(desc string, line int) {
		os.RemoveAll(scratch)
		if e := crashfs.CopyTree(img, scratch); e != nil {
			return
		}
		images++
		var sig, msg string
		// admissible states
		prev := cur
		if inside {
			prev = cur - 1
		}
		if prev < 0 {
			prev = 0
		}
		switch kind {
		case "log":
			if prev >= len(logAfter) || cur >= len(logAfter) {
				return
			}
			acc := []LogModel{logAfter[prev]}
			if inside && cur >= 1 {
				acc = append(acc, logAfter[cur])
				op := logOps[cur-1]
				if op.Kind == "append1" || op.Kind == "appendN" {
					for j := 1; j < len(op.Ents); j++ {
						m := logAfter[prev].clone()
						m.Ents = append(m.Ents, op.Ents[:j]...)
						acc = append(acc, m)
					}
				}
			}
			sig, msg = judgeLogImage(scratch, acc)
		case "state":
			if cur >= len(stAfter) {
				return
			}
			acc := [][2]interface{}{stAfter[prev]}
			if inside {
				acc = append(acc, stAfter[cur])
			}
			sig, msg = judgeStateImage(scratch, acc)
		case "snap":
			if cur >= len(snAfter) {
				return
			}
			acc := []*SnapRec{snAfter[prev]}
			if inside {
				acc = append(acc, snAfter[cur])
			}
			sig, msg = judgeSnapImage(scratch, acc)
			if sig == "" {
				os.RemoveAll(scratch)
				crashfs.CopyTree(img, scratch)
				if err := newRaftOver(scratch); err != nil {
					sig, msg = "newraft-failed", "NewRaft over the image: "+err.Error()
				}
			}
		}
		x.count("images", 1)
		if sig != "" {
			x.count("images_violating", 1)
			if !violSeen[sig] {
				violSeen[sig] = true
				props := []string{"C12"}
				switch kind {
				case "state", "snap":
					props = []string{"C13"}
				}
				// a node created over this image starts from a wrong disk state (or cannot be created): C14 as well
				props = append(props, "C14")
				opk := ""
				switch {
				case kind == "log" && cur >= 1 && cur <= len(logOps):
					opk = logOps[cur-1].Kind
				case kind == "state" && cur >= 1 && cur <= len(stOps):
					opk = stOps[cur-1].Kind
				case kind == "snap" && cur >= 1 && cur <= len(snOps):
					opk = snOps[cur-1].Kind
				}
				x.M.AddViolation(mon.Violation{Props: props, Sig: kind + "/" + sig, Msg: fmt.Sprintf("crash %s (API call %d %s, in flight=%v, trace line %d): %s", desc, cur, opk, inside, line, msg)})
			}
		}
	}

	for i, op := range ops {
		if op.Kind == "marker" {
			f := strings.Fields(op.Marker)
			// VMARK BEGIN k kind | VMARK END k ok
			if len(f) >= 3 && f[0] == "VMARK" {
				if strings.Contains(f[2], ".") {
					continue // implicit reopen: not a model step
				}
				var k int
				fmt.Sscan(f[2], &k)
				if f[1] == "BEGIN" {
					cur, inside = k, true
				} else {
					inside = false
					lastEndOK = len(f) >= 4 && f[3] == "ok"
					if !lastEndOK {
						props := []string{"C12"}
						if kind != "log" {
							props = []string{"C13"}
						}
						x.M.AddViolation(mon.Violation{Props: props, Sig: kind + "/api-error-without-crash", Msg: fmt.Sprintf("API call %d returned an error on a healthy directory: %s", k, op.Marker)})
					}
				}
			}
			continue
		}
		if !op.Mutating() {
			continue
		}
		_ = i
		// image before this op
		key := fmt.Sprintf("%d/%v/%s/%s", cur, inside, op.Kind, op.Path)
		distinctImg[key] = true
		judge(fmt.Sprintf("before %s %s", op.Kind, op.Path), op.Line)
		if op.Kind == "write" {
			for _, p := range prefixes(len(op.Data)) {
				if e := crashfs.Apply(img, op, p); e != nil {
					break
				}
				judge(fmt.Sprintf("after %d of %d bytes of a write to %s", p, len(op.Data), op.Path), op.Line)
				x.count("torn_write_images", 1)
			}
		}
		if e := crashfs.Apply(img, op, -1); e != nil {
			x.Inconclusive("replay failed at trace line %d: %v", op.Line, e)
			return
		}
	}
	inside = false
	judge("after the last operation", 0)
	x.count("api_calls", cur)
	x.count("syscalls_replayed", len(ops))
	x.Res.Cover["distinct_crash_points"] = len(distinctImg)
	if images > 0 {
		x.NT("images")
	}

	// C04 (iii): fsync discipline of the file-backed log, from the same trace
	if kind == "log" {
		fsyncDiscipline(x, ops, logOps)
	}
	x.Res.Steps = append(x.Res.Steps, fmt.Sprintf("%s workload of %d API calls: %d syscalls, %d images", kind, cur, len(ops), images))
	for _, op := range logOps {
		x.Res.Steps = append(x.Res.Steps, op.Kind)
	}
}

func (x *Ctx) count(k string, n int) {
	x.M.Lock()
	x.M.Counts[k] += n
	x.M.Unlock()
}

// fsyncDiscipline checks, per API call window, that the anchored fsyncs happened (C04 iii).
func fsyncDiscipline(x *Ctx, ops []crashfs.Op, logOps []LogOp) {
	cur := 0
	var win []crashfs.Op
	flush := func() {
		if cur < 1 || cur > len(logOps) {
			win = nil
			return
		}
		kind := logOps[cur-1].Kind
		switch kind {
		case "append1", "appendN", "trunc":
			// after the last write/ftruncate to log.bin there must be an fsync of that descriptor
			lastMut, lastSync := -1, -1
			for i, op := range win {
				if strings.HasSuffix(op.Path, "log.bin") {
					if op.Kind == "write" || op.Kind == "trunc" {
						lastMut = i
					}
					if op.Kind == "fsync" {
						lastSync = i
					}
				}
			}
			x.count("c04.fsync_windows", 1)
			if lastMut >= 0 && lastSync < lastMut {
				x.M.AddViolation(mon.Violation{Props: []string{"C04"}, Sig: "missing-fsync/" + kind, Msg: fmt.Sprintf("log %s (API call %d) returned without an fsync of log.bin after its last write/truncate (trace line %d)", kind, cur, win[lastMut].Line)})
			}
		case "compact", "discard":
			// the temp file must be fsynced after its last write and before it is renamed over log.bin
			ren := -1
			for i, op := range win {
				if op.Kind == "rename" && strings.HasSuffix(op.Path2, "log.bin") {
					ren = i
				}
			}
			x.count("c04.fsync_windows", 1)
			if ren >= 0 {
				tmp := win[ren].Path
				lastMut, lastSync := -1, -1
				for i := 0; i < ren; i++ {
					if win[i].Path == tmp {
						if win[i].Kind == "write" {
							lastMut = i
						}
						if win[i].Kind == "fsync" {
							lastSync = i
						}
					}
				}
				if lastMut >= 0 && lastSync < lastMut {
					x.M.AddViolation(mon.Violation{Props: []string{"C04"}, Sig: "missing-fsync/" + kind, Msg: fmt.Sprintf("log %s (API call %d) renamed %s over log.bin without an fsync after its last write", kind, cur, tmp)})
				}
			}
		}
		win = nil
	}
	for _, op := range ops {
		if op.Kind == "marker" {
			f := strings.Fields(op.Marker)
			if len(f) >= 3 && !strings.Contains(f[2], ".") {
				if f[1] == "BEGIN" {
					fmt.Sscan(f[2], &cur)
					win = nil
				} else {
					flush()
				}
			}
			continue
		}
		win = append(win, op)
	}
}

func init() {
	Registry["store.log"] = func(x *Ctx) { StoreSweep(x, "log") }
	Registry["store.state"] = func(x *Ctx) { StoreSweep(x, "state") }
	Registry["store.snap"] = func(x *Ctx) { StoreSweep(x, "snap") }
}
