package scen

import (
	"fmt"
	"math/rand"
	"os"
	"path/filepath"
	"sync/atomic"
	"time"

	"github.com/jmsadair/raft"

	"verif/harness/cluster"
	"verif/harness/mon"
	"verif/harness/shim"
	"verif/harness/simnet"
)

// W3 — puppet sweeps: one real node "p", peers A and B played by the harness. Requests are strictly
// sequential, so post-handler samples are exact before/after values.

type wEntry struct {
	Index, Term uint64
	Type        raft.LogEntryType
	Data        []byte
}

type world struct {
	L   [4][]wEntry // L[t][i-1] = entry at index i in the log of the leader of term t
	C   [4]int      // what leader t announced as committed (prefix length)
	cfg []byte
}

func leaderOf(t uint64) string {
	if t%2 == 1 {
		return "A"
	}
	return "B"
}

func genWorld(r *rand.Rand, cfg []byte) *world {
	w := &world{cfg: cfg}
	mk := func(base []wEntry, n int, term uint64) []wEntry {
		out := append([]wEntry(nil), base...)
		for i := 0; i < n; i++ {
			idx := uint64(len(out) + 1)
			ty := raft.OperationEntry
			if r.Intn(5) == 0 {
				ty = raft.NoOpEntry
			}
			out = append(out, wEntry{Index: idx, Term: term, Type: ty, Data: []byte(fmt.Sprintf("op-t%d-i%d", term, idx))})
		}
		return out
	}
	boot := []wEntry{{Index: 1, Term: 1, Type: raft.ConfigurationEntry, Data: cfg}}
	w.L[1] = mk(boot, 1+r.Intn(3), 1)
	w.C[1] = 1 + r.Intn(len(w.L[1]))
	k := w.C[1] + r.Intn(len(w.L[1])-w.C[1]+1)
	w.L[2] = mk(w.L[1][:k], 1+r.Intn(2), 2)
	w.C[2] = w.C[1] + r.Intn(len(w.L[2])-w.C[1]+1)
	// L3 on top of L2 (always contains everything committed so far)
	k = w.C[2] + r.Intn(len(w.L[2])-w.C[2]+1)
	w.L[3] = mk(w.L[2][:k], 1+r.Intn(2), 3)
	w.C[3] = w.C[2] + r.Intn(len(w.L[3])-w.C[2]+1)
	return w
}

func (w *world) ents(t int, from, to int) []*raft.LogEntry { // indices from..to inclusive (1-based)
	var out []*raft.LogEntry
	for i := from; i <= to && i <= len(w.L[t]); i++ {
		e := w.L[t][i-1]
		out = append(out, raft.NewLogEntry(e.Index, e.Term, append([]byte(nil), e.Data...), e.Type))
	}
	return out
}

func (w *world) termAt(t int, idx int) uint64 {
	if idx == 0 {
		return 0
	}
	return w.L[t][idx-1].Term
}

// canon returns the state machine state after applying the operations of leader t's log up to idx.
func (w *world) canon(t int, idx int) (cnt, chn, lst uint64) {
	for i := 1; i <= idx; i++ {
		e := w.L[t][i-1]
		if e.Type == raft.OperationEntry {
			cnt++
			chn = mon.FsmStep(chn, e.Index, e.Term, mon.HashBytes(e.Data))
			lst = e.Index
		}
	}
	return
}

type puppet struct {
	x            *Ctx
	M            *mon.Monitor
	C            *cluster.Cluster
	n            *cluster.Node
	eps          map[string]*simnet.Endpoint
	w            *world
	desc         []string
	grantPrevote atomic.Bool
	grantVote    atomic.Bool
	cfgBytes     []byte
	snapshots    bool
}

func (p *puppet) log(format string, args ...interface{}) {
	if len(p.desc) < 40 {
		p.desc = append(p.desc, fmt.Sprintf(format, args...))
	}
}

func newPuppet(x *Ctx, dir string, seed int64, fo shim.FSMOpts) (*puppet, error) {
	m := mon.New()
	m.Keep = true
	et := time.Duration(x.P.Int("etms", 3)) * time.Millisecond
	hb := et / 4
	if hb < 2*time.Millisecond {
		hb = 2 * time.Millisecond
	}
	c := cluster.New(m, dir, seed, cluster.Options{ET: et, HB: hb, Lease: time.Millisecond, FSM: fo, SampleEvery: time.Hour})
	p := &puppet{x: x, M: m, C: c, eps: map[string]*simnet.Endpoint{}, snapshots: fo.SnapThreshold > 0}
	m.Emit(mon.Event{Kind: mon.KPuppet})
	cfg := &mon.Cfg{Index: 1, Members: map[string]bool{"p": true, "A": true, "B": true}}
	m.Emit(mon.Event{Kind: mon.KBoot, Cfg: cfg})
	n, err := c.AddNode("p")
	if err != nil {
		return nil, err
	}
	p.n = n
	if err := n.Bootstrap([]string{"p", "A", "B"}); err != nil {
		return nil, err
	}
	rc := raft.NewConfiguration(1, map[string]string{"p": "p", "A": "A", "B": "B"})
	p.cfgBytes, _ = c.Net.Codec().EncodeConfiguration(rc)
	for _, id := range []string{"A", "B"} {
		ep := c.Net.NewEndpoint(id, 1)
		ep.RegisterRequestVoteHandler(func(req *raft.RequestVoteRequest, resp *raft.RequestVoteResponse) error {
			resp.Term = 0
			if req.Prevote {
				resp.VoteGranted = p.grantPrevote.Load()
			} else {
				resp.VoteGranted = p.grantVote.Load()
			}
			return nil
		})
		ep.RegisterAppendEntriesHandler(func(req *raft.AppendEntriesRequest, resp *raft.AppendEntriesResponse) error {
			resp.Term = 0
			resp.Success = false
			resp.Index = 1
			return nil
		})
		ep.RegsiterInstallSnapshotHandler(func(req *raft.InstallSnapshotRequest, resp *raft.InstallSnapshotResponse) error {
			return nil
		})
		ep.Run()
		p.eps[id] = ep
	}
	if err := n.Start(); err != nil {
		return nil, err
	}
	return p, nil
}

func (p *puppet) close() {
	p.C.Shutdown()
}

// settle sleeps long enough that the recent-contact window of the node cannot apply any more.
func (p *puppet) settle() { time.Sleep(3 * p.C.Opts.ET) }

func (p *puppet) sample() *mon.Sample { return p.n.Sample() }

func (p *puppet) ae(t int, term uint64, prev, n, commit int) (raft.AppendEntriesResponse, error) {
	w := p.w
	req := raft.AppendEntriesRequest{LeaderID: leaderOf(term), Term: term, PrevLogIndex: uint64(prev), PrevLogTerm: w.termAt(t, prev), Entries: w.ents(t, prev+1, prev+n), LeaderCommit: uint64(commit)}
	// the world declares everything leader t announces as committed
	if commit > 0 {
		ev := mon.Event{Kind: mon.KWorldCommit}
		for i := 1; i <= commit && i <= len(w.L[t]); i++ {
			ev.Ents = append(ev.Ents, p.C.Net.EntryOf(w.ents(t, i, i)[0]))
		}
		p.M.Emit(ev)
	}
	p.log("AE(term %d from log L%d, prev %d/%d, %d entries, commit %d)", term, t, prev, req.PrevLogTerm, len(req.Entries), commit)
	resp, err := p.eps[leaderOf(term)].SendAppendEntries("p", req)
	if err == nil {
		p.log("  -> success=%v term=%d index=%d", resp.Success, resp.Term, resp.Index)
	} else {
		p.log("  -> error %v", err)
	}
	return resp, err
}

func (p *puppet) rv(cand string, term uint64, lastIdx, lastTerm uint64, prevote bool) (raft.RequestVoteResponse, error) {
	req := raft.RequestVoteRequest{CandidateID: cand, Term: term, LastLogIndex: lastIdx, LastLogTerm: lastTerm, Prevote: prevote}
	p.log("RV(cand %s, term %d, last %d/%d, prevote %v)", cand, term, lastIdx, lastTerm, prevote)
	resp, err := p.eps[cand].SendRequestVote("p", req)
	if err == nil {
		p.log("  -> granted=%v term=%d", resp.VoteGranted, resp.Term)
	} else {
		p.log("  -> error %v", err)
	}
	return resp, err
}

func (p *puppet) crashRestart() bool {
	p.log("crash+restart")
	p.n.Crash("puppet")
	p.n.WaitDown(2 * time.Second)
	if err := p.n.Restart(); err != nil {
		p.M.AddViolation(mon.Violation{Props: []string{"C14", "C13", "C08"}, Sig: "restart-failed", Node: "p", Msg: fmt.Sprintf("node could not be restarted over its directory: %v", err)})
		return false
	}
	return true
}

// buildFollower brings the node's log to a prefix of some leader's log by legal requests.
func (p *puppet) buildFollower(r *rand.Rand) (t int, f int) {
	w := p.w
	t = 1 + r.Intn(3)
	f = 1 + r.Intn(len(w.L[t]))
	c := w.C[t]
	if c > f {
		c = f
	}
	if r.Intn(3) == 0 {
		c = r.Intn(c + 1)
	}
	if r.Intn(3) == 0 && t > 1 {
		// two steps: first from an older leader (may leave a tail that the second step must truncate)
		t0 := 1 + r.Intn(t-1)
		f0 := 1 + r.Intn(len(w.L[t0]))
		p.ae(t0, uint64(t0), 1, f0-1, 0)
	}
	p.ae(t, uint64(t), 1, f-1, c)
	return
}

type caseFn func(p *puppet, r *rand.Rand)

// runPuppetCases runs n cases, each on a fresh node, monitor and directory.
func runPuppetCases(x *Ctx, n int, fo shim.FSMOpts, fn caseFn) {
	x.M.Emit(mon.Event{Kind: mon.KPuppet})
	kept := false
	for i := 0; i < n; i++ {
		seed := x.Seed*100003 + int64(i)
		r := rand.New(rand.NewSource(seed))
		dir := filepath.Join(x.Root, fmt.Sprintf("case-%d", i))
		os.MkdirAll(dir, 0o755)
		p, err := newPuppet(x, dir, seed, fo)
		if err != nil {
			x.Inconclusive("puppet setup: %v", err)
			return
		}
		p.w = genWorld(r, p.cfgBytes)
		func() {
			defer func() {
				if rec := recover(); rec != nil {
					p.M.AddViolation(mon.Violation{Props: []string{"C18"}, Sig: "panic", Msg: fmt.Sprintf("panic in case %d: %v", i, rec)})
				}
			}()
			fn(p, r)
		}()
		p.sample()
		p.close()
		// merge
		p.M.Lock()
		viol := append([]mon.Violation(nil), p.M.Viol...)
		counts := map[string]int{}
		for k, v := range p.M.Counts {
			counts[k] = v
		}
		events := p.M.Events
		p.M.Unlock()
		x.M.Lock()
		for k, v := range counts {
			x.M.Counts[k] += v
		}
		x.M.Counts["puppet.cases"]++
		x.M.Unlock()
		for _, v := range viol {
			v.Msg = fmt.Sprintf("%s  [case %d: %v]", v.Msg, i, p.desc)
			x.M.AddViolation(v)
		}
		if len(viol) > 0 && !kept {
			kept = true
			x.M.Lock()
			x.M.Events = events // the violating case's history is the replay
			x.M.Unlock()
		}
		if len(x.Res.Steps) < 40 && i < 3 {
			x.Res.Steps = append(x.Res.Steps, fmt.Sprintf("case %d: %v", i, p.desc))
		}
		x.Res.Cover[fmt.Sprintf("world-terms-%d", len(p.w.L[3]))]++
		os.RemoveAll(dir)
	}
	if !kept {
		x.M.Lock()
		x.M.Events = nil
		x.M.Unlock()
	}
}

// ---------------------------------------------------------------- C06: AppendEntries sweep

func puppetAE(p *puppet, r *rand.Rand) {
	w := p.w
	p.buildFollower(r)
	if r.Intn(4) == 0 {
		p.installFrom(r, 0)
	}
	nreq := 1 + r.Intn(3)
	var last struct{ t, prev, n, c int }
	for i := 0; i < nreq; i++ {
		t := 1 + r.Intn(3)
		term := uint64(t)
		prev := r.Intn(len(w.L[t]) + 1)
		rest := len(w.L[t]) - prev
		n := 0
		if rest > 0 {
			n = r.Intn(rest + 1)
		}
		c := r.Intn(w.C[t] + 1)
		if r.Intn(2) == 0 {
			c = w.C[t]
		}
		if i > 0 && r.Intn(4) == 0 {
			t, prev, n, c = last.t, last.prev, last.n, last.c // exact duplicate
			term = uint64(t)
		}
		last.t, last.prev, last.n, last.c = t, prev, n, c
		p.ae(t, term, prev, n, c)
		if p.snapshots {
			time.Sleep(2 * time.Millisecond) // let the node apply and compact
		}
		if r.Intn(6) == 0 {
			p.crashRestart()
		}
	}
	// what the requests left on disk is what a restart finds
	if r.Intn(2) == 0 {
		p.crashRestart()
	}
	p.x.Cover("ae-cases")
}

// installFrom sends a complete snapshot of leader t's log at an index it has committed (one chunk).
func (p *puppet) installFrom(r *rand.Rand, forceT int) (int, int) {
	w := p.w
	t := forceT
	if t == 0 {
		t = 1 + r.Intn(3)
	}
	s := 1 + r.Intn(w.C[t])
	cnt, chn, lst := w.canon(t, s)
	data := shim.EncodeSnap(cnt, chn, lst, r.Intn(3)*50)
	term := uint64(t)
	p.M.Emit(mon.Event{Kind: mon.KWorldSnap, Node: leaderOf(term), Idx: uint64(s), Term: w.termAt(t, s), Num: int64(len(data)), Hash: mon.HashBytes(data), Cnt: cnt, Chn: chn})
	ev := mon.Event{Kind: mon.KWorldCommit}
	for i := 1; i <= s; i++ {
		ev.Ents = append(ev.Ents, p.C.Net.EntryOf(w.ents(t, i, i)[0]))
	}
	p.M.Emit(ev)
	req := raft.InstallSnapshotRequest{LeaderID: leaderOf(term), Term: term, LastIncludedIndex: uint64(s), LastIncludedTerm: w.termAt(t, s), Configuration: p.cfgBytes, Bytes: data, Offset: 0, Done: true}
	p.log("IS(term %d, label %d/%d, %d bytes, done)", term, s, req.LastIncludedTerm, len(data))
	resp, err := p.is(req)
	p.log("  -> written=%d term=%d err=%v", resp.BytesWritten, resp.Term, err)
	return t, s
}

// is sends one InstallSnapshot request the way the real sender would experience it. The handler may wait for the
// node to apply entries it already holds up to the label. A real leader does not send AppendEntries to that
// follower meanwhile (its next index is at or below its own snapshot): it retransmits the snapshot with every
// heartbeat, and only when a retransmission is acknowledged as complete does it move on to AppendEntries, which
// carries the commit index that lets the waiting handler finish. The puppet leader does the same; if that
// protocol does not complete within 8 rounds the transfer is stuck (C15).
func (p *puppet) is(req raft.InstallSnapshotRequest) (raft.InstallSnapshotResponse, error) {
	type out struct {
		resp raft.InstallSnapshotResponse
		err  error
	}
	send := func(r raft.InstallSnapshotRequest) chan out {
		ch := make(chan out, 1)
		go func() {
			resp, err := p.eps[r.LeaderID].SendInstallSnapshot("p", r)
			ch <- out{resp, err}
		}()
		return ch
	}
	first := send(req)
	select {
	case o := <-first:
		return o.resp, o.err
	case <-time.After(15 * time.Millisecond):
	}
	// the handler is waiting: from now on requests overlap
	p.M.Emit(mon.Event{Kind: mon.KNote, Str: "concurrent-requests"})
	p.x.count("puppet.install_handler_waited", 1)
	for round := 0; round < 8; round++ {
		p.log("  (handler waiting: leader retransmits the snapshot request)")
		dup := send(req)
		acked := false
		select {
		case o := <-first:
			return o.resp, o.err
		case o := <-dup:
			acked = o.err == nil && req.Done && o.resp.BytesWritten == req.Offset+int64(len(req.Bytes))
		case <-time.After(15 * time.Millisecond):
		}
		if acked {
			// transfer acknowledged as complete: the leader continues with AppendEntries after the snapshot
			hb := raft.AppendEntriesRequest{LeaderID: req.LeaderID, Term: req.Term, PrevLogIndex: req.LastIncludedIndex, PrevLogTerm: req.LastIncludedTerm, LeaderCommit: req.LastIncludedIndex}
			p.log("  (retransmission acknowledged: heartbeat prev %d commit %d)", hb.PrevLogIndex, hb.LeaderCommit)
			p.eps[req.LeaderID].SendAppendEntries("p", hb)
			if smp := p.sample(); smp != nil && smp.Commit >= req.LastIncludedIndex {
				break // the follower has moved on; the first invocation may stay parked
			}
		}
		select {
		case o := <-first:
			return o.resp, o.err
		case <-time.After(10 * time.Millisecond):
		}
		if !req.Done {
			break
		}
	}
	// What matters is the follower's progress, not the first handler invocation (which may stay parked on the
	// apply condition until the commit index moves again; it holds no lock and blocks nobody).
	if smp := p.sample(); req.Done && (smp == nil || smp.Commit < req.LastIncludedIndex) {
		p.M.AddViolation(mon.Violation{Props: []string{"C15"}, Sig: "install-handshake-stuck", Node: "p", Msg: fmt.Sprintf("after InstallSnapshot(label %d/%d, final chunk) the follower's commit index never reached the label although the leader kept retransmitting the request for 8 heartbeat rounds (a real leader sends no AppendEntries to a follower whose next index is inside its snapshot, so nothing else can unblock the follower)", req.LastIncludedIndex, req.LastIncludedTerm)})
	}
	p.log("  (handler parked)")
	return raft.InstallSnapshotResponse{}, fmt.Errorf("parked")
}

// ---------------------------------------------------------------- C08: RequestVote sweep

func puppetRV(p *puppet, r *rand.Rand) {
	w := p.w
	ft, f := p.buildFollower(r)
	_ = ft
	if p.snapshots {
		time.Sleep(3 * time.Millisecond) // let the node apply, snapshot and compact
		if r.Intn(2) == 0 {
			p.crashRestart() // the compacted log is reloaded from disk
		}
	}
	role := r.Intn(3) // 0 follower, 1 precandidate, 2 candidate
	switch role {
	case 1:
		p.grantPrevote.Store(false)
		p.waitRole("precandidate", 60*time.Millisecond)
	case 2:
		p.grantPrevote.Store(true)
		p.waitRole("candidate", 80*time.Millisecond)
		p.grantPrevote.Store(false)
	}
	if s := p.sample(); s != nil {
		p.x.Cover("rv-role-" + s.State)
	}
	nsteps := 2 + r.Intn(4)
	for i := 0; i < nsteps; i++ {
		s := p.sample()
		if s == nil {
			return
		}
		cur := s.Term
		switch k := r.Intn(10); {
		case k < 6: // vote request
			var term uint64
			switch r.Intn(5) {
			case 0:
				if cur > 0 {
					term = cur - 1
				}
			case 1, 2:
				term = cur
			case 3:
				term = cur + 1
			default:
				term = cur + 2
			}
			cand := []string{"A", "B"}[r.Intn(2)]
			// candidate's last entry: shorter / equal / longer / older-term-but-longer / newer-term-but-shorter
			myLast := uint64(f)
			myTerm := w.termAt(ft, f)
			var li, lt uint64
			switch r.Intn(6) {
			case 0:
				li, lt = myLast, myTerm
			case 1:
				li, lt = myLast+1, myTerm
			case 2:
				if myLast > 0 {
					li, lt = myLast-1, myTerm
				}
			case 3:
				li, lt = myLast+3, myTerm-1
				if myTerm == 0 {
					lt = 0
				}
			case 4:
				li, lt = 1, myTerm+1
			default:
				li, lt = uint64(r.Intn(8)), uint64(r.Intn(4))
			}
			prevote := r.Intn(4) == 0
			if prevote {
				// a prevote names the term the sender would campaign in: usually one ahead of the receiver, further
				// ahead when the sender has been lingering
				term = cur + 1 + []uint64{0, 0, 1, 4}[r.Intn(4)]
			}
			if r.Intn(3) != 0 {
				p.settle()
			}
			p.rv(cand, term, li, lt, prevote)
		case k < 8: // append entries / heartbeat from a leader of the same or a higher term
			t := 1 + r.Intn(3)
			term := cur
			if r.Intn(2) == 0 {
				term = cur + 1
			}
			if term == 0 {
				term = 1
			}
			prev := r.Intn(len(w.L[t]) + 1)
			req := raft.AppendEntriesRequest{LeaderID: leaderOf(term), Term: term, PrevLogIndex: uint64(prev), PrevLogTerm: w.termAt(t, prev)}
			p.log("heartbeat(term %d, prev %d/%d)", term, prev, req.PrevLogTerm)
			resp, err := p.eps[leaderOf(term)].SendAppendEntries("p", req)
			p.log("  -> success=%v term=%d err=%v", resp.Success, resp.Term, err)
		case k < 9:
			p.crashRestart()
		default:
			// let the node's own timers run (may make it a precandidate)
			p.log("wait")
			time.Sleep(time.Duration(4+r.Intn(8)) * time.Millisecond)
		}
		if r.Intn(5) == 0 {
			p.crashRestart()
		}
	}
	p.settle()
	p.sample()
}

func (p *puppet) waitRole(role string, d time.Duration) bool {
	dl := time.Now().Add(d)
	for time.Now().Before(dl) {
		if s := p.sample(); s != nil && s.State == role {
			return true
		}
		time.Sleep(500 * time.Microsecond)
	}
	return false
}

// ---------------------------------------------------------------- C11: InstallSnapshot sweep

type srcSnap struct {
	t      int
	idx    int
	data   []byte
	chunks [][2]int // [offset, end)
}

func puppetIS(p *puppet, r *rand.Rand) {
	w := p.w
	p.buildFollower(r)
	// two source snapshots A (older) and B (newer) of leader logs
	mkSrc := func(t, idx int, pad int) *srcSnap {
		cnt, chn, lst := w.canon(t, idx)
		data := shim.EncodeSnap(cnt, chn, lst, pad)
		s := &srcSnap{t: t, idx: idx, data: data}
		nch := 1 + r.Intn(3)
		cuts := []int{0}
		for c := 1; c < nch; c++ {
			cuts = append(cuts, r.Intn(len(data)+1))
		}
		cuts = append(cuts, len(data))
		for i := 0; i < len(cuts); i++ {
			for j := i + 1; j < len(cuts); j++ {
				if cuts[j] < cuts[i] {
					cuts[i], cuts[j] = cuts[j], cuts[i]
				}
			}
		}
		for i := 0; i+1 < len(cuts); i++ {
			s.chunks = append(s.chunks, [2]int{cuts[i], cuts[i+1]})
		}
		term := uint64(t)
		p.M.Emit(mon.Event{Kind: mon.KWorldSnap, Node: leaderOf(term), Idx: uint64(idx), Term: w.termAt(t, idx), Num: int64(len(data)), Hash: mon.HashBytes(data), Cnt: cnt, Chn: chn})
		ev := mon.Event{Kind: mon.KWorldCommit}
		for i := 1; i <= idx; i++ {
			ev.Ents = append(ev.Ents, p.C.Net.EntryOf(w.ents(t, i, i)[0]))
		}
		p.M.Emit(ev)
		return s
	}
	// B is the newer snapshot (of leader tb), A an older one with a strictly smaller label: two different
	// byte contents for one label cannot exist in a correct cluster
	tb := 2 + r.Intn(2)
	ib := 1 + r.Intn(w.C[tb])
	srcs := []*srcSnap{mkSrc(tb, ib, 100+r.Intn(80))}
	if ib > 1 {
		ta := 1 + r.Intn(tb)
		maxA := ib - 1
		if w.C[ta] < maxA {
			maxA = w.C[ta]
		}
		ia := 1 + r.Intn(maxA)
		srcs = append([]*srcSnap{mkSrc(ta, ia, 10+r.Intn(60))}, srcs...)
	}
	nreq := 1 + r.Intn(5)
	// most sequences are "mostly in order" so that installs complete; others are hostile
	next := [2]int{0, 0}
	for i := 0; i < nreq; i++ {
		si := r.Intn(len(srcs))
		s := srcs[si]
		ci := next[si]
		hostile := r.Intn(3) == 0
		if hostile || ci >= len(s.chunks) {
			ci = r.Intn(len(s.chunks))
		}
		ch := s.chunks[ci]
		off := int64(ch[0])
		done := ci == len(s.chunks)-1
		// Offsets and Done flags stay truthful (each request is a real chunk of a snapshot the sender has):
		// "wrong" offsets reach the node through reordering, duplication and interleaving, which is the
		// domain; a request that lies about where its bytes belong is a corrupt sender, not a stale one.
		_ = off
		term := uint64(s.t)
		switch r.Intn(6) {
		case 0:
			if term > 1 {
				term--
			}
		case 1:
			term++
		}
		req := raft.InstallSnapshotRequest{LeaderID: leaderOf(term), Term: term, LastIncludedIndex: uint64(s.idx), LastIncludedTerm: w.termAt(s.t, s.idx), Configuration: p.cfgBytes, Bytes: append([]byte(nil), s.data[ch[0]:ch[1]]...), Offset: off, Done: done}
		p.log("IS(term %d, label %d/%d, off %d, %d bytes, done %v)", term, s.idx, req.LastIncludedTerm, off, len(req.Bytes), done)
		resp, err := p.is(req)
		p.log("  -> written=%d term=%d err=%v", resp.BytesWritten, resp.Term, err)
		if err == nil && resp.BytesWritten == int64(ch[1]) && off == int64(ch[0]) {
			next[si] = ci + 1
		}
		if r.Intn(8) == 0 {
			p.crashRestart()
		}
	}
	p.probes(r)
}

// probes sends replication and vote probes whose correct answer follows from the true log (the disk shadow,
// which keeps real index/term through compaction): C11 clause 5.
func (p *puppet) probes(r *rand.Rand) {
	s := p.sample()
	if s == nil {
		return
	}
	p.M.Lock()
	sh := p.M.Nodes["p"]
	li, lt := sh.LastIndex(), sh.LastTerm()
	p.M.Unlock()
	term := s.Term + 1
	type pr struct {
		kind     string
		prev, pt uint64
		expect   bool
	}
	// replication probes (no entries, commit 0): accept iff prev entry matches
	for _, q := range []pr{{"ae-at-last", li, lt, true}, {"ae-wrong-term", li, lt + 7, false}, {"ae-beyond-last", li + 1, lt, false}} {
		req := raft.AppendEntriesRequest{LeaderID: leaderOf(term), Term: term, PrevLogIndex: q.prev, PrevLogTerm: q.pt}
		resp, err := p.eps[leaderOf(term)].SendAppendEntries("p", req)
		if err != nil {
			continue
		}
		p.log("probe %s prev %d/%d -> %v", q.kind, q.prev, q.pt, resp.Success)
		p.M.Emit(mon.Event{Kind: mon.KProbe, Node: "p", Str: q.kind, Flag: q.expect, Idx: li, Term: lt, Msg: &mon.Msg{Kind: "AE", Prev: q.prev, PrevTerm: q.pt, ROK: resp.Success}})
	}
	// vote probes, each in a fresh higher term and outside the recent-contact window
	type vp struct {
		kind   string
		i, t   uint64
		expect bool
	}
	vps := []vp{{"rv-equal-log", li, lt, true}, {"rv-longer-log", li + 1, lt, true}, {"rv-newer-term", 1, lt + 1, true}}
	if li > 0 {
		vps = append(vps, vp{"rv-shorter-log", li - 1, lt, false})
	}
	if lt > 0 {
		vps = append(vps, vp{"rv-older-term", li + 5, lt - 1, false})
	}
	for _, q := range vps {
		p.settle()
		term++
		cand := leaderOf(term)
		resp, err := p.eps[cand].SendRequestVote("p", raft.RequestVoteRequest{CandidateID: cand, Term: term, LastLogIndex: q.i, LastLogTerm: q.t})
		if err != nil {
			continue
		}
		p.log("probe %s last %d/%d -> %v", q.kind, q.i, q.t, resp.VoteGranted)
		p.M.Emit(mon.Event{Kind: mon.KProbe, Node: "p", Str: q.kind, Flag: q.expect, Idx: li, Term: lt, Msg: &mon.Msg{Kind: "RV", LastIdx: q.i, LastTerm: q.t, ROK: resp.VoteGranted}})
	}
}

func init() {
	Registry["puppet.ae"] = func(x *Ctx) {
		// snapthr > 0: the node takes snapshots of its own (compaction that retains the entries after the label)
		runPuppetCases(x, x.P.Int("cases", 40), shim.FSMOpts{Seed: x.Seed, SnapThreshold: x.P.Int("snapthr", 0)}, puppetAE)
	}
	Registry["puppet.rv"] = func(x *Ctx) {
		runPuppetCases(x, x.P.Int("cases", 30), shim.FSMOpts{Seed: x.Seed, SnapThreshold: x.P.Int("snapthr", 0)}, puppetRV)
	}
	Registry["puppet.is"] = func(x *Ctx) { runPuppetCases(x, x.P.Int("cases", 30), shim.FSMOpts{Seed: x.Seed}, puppetIS) }
}

// ---------------------------------------------------------------- C16 / C17: a node that has just answered its leader does not vote

// puppetSticky: the node answers a request of a legitimate leader (same or newer term; heartbeat that matches,
// heartbeat whose previous entry is missing or conflicts, entries, a whole snapshot) and is asked for its
// (pre)vote by the other scripted node right afterwards - far inside the election timeout (etms is large in
// this family). The leader counts every such answer as contact with a voter (quorum, lease), so the voter must
// neither grant nor adopt the outsider's term. Elapsed wall time between the answer and the vote request is
// measured; a probe that took longer than half the election timeout is not judged.
func puppetSticky(p *puppet, r *rand.Rand) {
	w := p.w
	ft, f := p.buildFollower(r)
	if p.snapshots {
		time.Sleep(3 * time.Millisecond)
	}
	et := p.C.Opts.ET
	nprobe := 3 + r.Intn(3)
	for i := 0; i < nprobe; i++ {
		s := p.sample()
		if s == nil {
			return
		}
		cur := s.Term
		term := cur
		if r.Intn(4) == 0 {
			term = cur + 1
		}
		if term == 0 {
			term = 1
		}
		var contact bool
		kind := r.Intn(6)
		if i == 0 && p.C.Opts.FSM.RestoreUs > 0 && r.Intn(3) > 0 {
			kind = 5
		}
		if kind != 5 && r.Intn(2) == 0 {
			// the node's previous contact with a leader is older than the election timeout: only the answer it is about to give counts
			time.Sleep(et + et/4)
			p.x.Cover("sticky-previous-contact-expired")
			if s = p.sample(); s == nil {
				return
			}
			if s.Term > term {
				term = s.Term
			}
		}
		switch {
		case kind == 5 && term >= 1 && term <= 3 && p.C.Opts.FSM.RestoreUs > 0 && i == 0:
			// the node is in the middle of restoring a snapshot (Restore outlasts the election timeout) when the heartbeat arrives
			t := int(term)
			sidx := w.C[t]
			if sidx <= f || t < ft {
				continue // the label must lie beyond the node's log, or the handler would wait for entries to be applied first
			}
			cnt, chn, lst := w.canon(t, sidx)
			data := shim.EncodeSnap(cnt, chn, lst, 0)
			p.M.Emit(mon.Event{Kind: mon.KWorldSnap, Node: leaderOf(term), Idx: uint64(sidx), Term: w.termAt(t, sidx), Num: int64(len(data)), Hash: mon.HashBytes(data), Cnt: cnt, Chn: chn})
			ev := mon.Event{Kind: mon.KWorldCommit}
			for k := 1; k <= sidx; k++ {
				ev.Ents = append(ev.Ents, p.C.Net.EntryOf(w.ents(t, k, k)[0]))
			}
			p.M.Emit(ev)
			p.M.Emit(mon.Event{Kind: mon.KNote, Str: "concurrent-requests"})
			req := raft.InstallSnapshotRequest{LeaderID: leaderOf(term), Term: term, LastIncludedIndex: uint64(sidx), LastIncludedTerm: w.termAt(t, sidx), Configuration: p.cfgBytes, Bytes: data, Offset: 0, Done: true}
			p.log("IS(term %d, label %d/%d, done) in the background; heartbeat while Restore runs", term, sidx, req.LastIncludedTerm)
			done := make(chan struct{})
			go func() {
				defer close(done)
				p.eps[req.LeaderID].SendInstallSnapshot("p", req)
			}()
			defer func() {
				// the handler returns when Restore ends; if it waits for something else it is released by the Stop() that ends the case
				select {
				case <-done:
				case <-time.After(time.Duration(p.C.Opts.FSM.RestoreUs)*time.Microsecond + time.Second):
					p.x.Cover("sticky-install-still-running-at-end")
				}
			}()
			time.Sleep(et + et/4)
			hb := raft.AppendEntriesRequest{LeaderID: leaderOf(term), Term: term, PrevLogIndex: uint64(sidx), PrevLogTerm: w.termAt(t, sidx)}
			resp, err := p.eps[leaderOf(term)].SendAppendEntries("p", hb)
			p.log("heartbeat(term %d, prev %d/%d) -> success=%v term=%d err=%v", term, sidx, hb.PrevLogTerm, resp.Success, resp.Term, err)
			contact = err == nil && resp.Term == term
			ft, f = t, 0
			if contact && !resp.Success {
				p.x.Cover("sticky-contact:heartbeat-rejected-while-restoring")
			} else {
				p.x.Cover("sticky-contact:heartbeat-around-restore")
			}
		case kind == 5:
			continue
		case kind == 4 && p.C.Opts.FSM.RestoreUs > 0:
			continue
		case kind == 4 && term >= 1 && term <= 3:
			t, _ := p.installFrom(r, int(term))
			ft, f = t, 0 // the log position is no longer tracked in this case
			contact = true
			p.x.Cover("sticky-contact:snapshot")
		default:
			prev := f
			what := "matching"
			switch kind {
			case 1: // previous entry beyond the node's log
				if f > 0 && len(w.L[ft]) > f {
					prev = f + 1 + r.Intn(len(w.L[ft])-f)
					what = "missing-previous"
				}
			case 2: // previous entry with another term
				for _, t2 := range []int{1, 2, 3} {
					if f > 0 && t2 != ft && len(w.L[t2]) >= f && w.termAt(t2, f) != w.termAt(ft, f) {
						what = "conflicting-previous"
						req := raft.AppendEntriesRequest{LeaderID: leaderOf(term), Term: term, PrevLogIndex: uint64(f), PrevLogTerm: w.termAt(t2, f)}
						p.log("heartbeat(term %d, prev %d/%d)", term, f, req.PrevLogTerm)
						resp, err := p.eps[leaderOf(term)].SendAppendEntries("p", req)
						p.log("  -> success=%v term=%d err=%v", resp.Success, resp.Term, err)
						contact = err == nil && resp.Term == term
						break
					}
				}
			}
			if what != "conflicting-previous" {
				if f == 0 {
					prev = 0
				}
				req := raft.AppendEntriesRequest{LeaderID: leaderOf(term), Term: term, PrevLogIndex: uint64(prev), PrevLogTerm: w.termAt(ft, prev)}
				p.log("heartbeat(term %d, prev %d/%d)", term, prev, req.PrevLogTerm)
				resp, err := p.eps[leaderOf(term)].SendAppendEntries("p", req)
				p.log("  -> success=%v term=%d err=%v", resp.Success, resp.Term, err)
				contact = err == nil && resp.Term == term
				if contact && !resp.Success {
					what += "-rejected"
				}
			}
			p.x.Cover("sticky-contact:" + what)
		}
		t0 := time.Now()
		before := p.sample()
		if before == nil {
			return
		}
		cand := "A"
		if leaderOf(term) == "A" {
			cand = "B"
		}
		prevote := r.Intn(2) == 0
		rvTerm := before.Term + 1 + uint64(r.Intn(2))
		resp, err := p.rv(cand, rvTerm, 1000, rvTerm, prevote)
		elapsed := time.Since(t0)
		after := p.sample()
		if err != nil || after == nil || !contact || elapsed > et/2 {
			p.x.count("sticky.probes_not_judged", 1)
			continue
		}
		p.x.count("sticky.probes", 1)
		if resp.VoteGranted {
			p.M.AddViolation(mon.Violation{Props: []string{"C16", "C17"}, Sig: "vote-right-after-leader-contact", Node: "p", Msg: fmt.Sprintf("node p answered leader %s of term %d and %d us later granted %s its %s for term %d (election timeout %v): the leader counts that answer as contact with a voter", leaderOf(term), term, elapsed.Microseconds(), cand, map[bool]string{true: "prevote", false: "vote"}[prevote], rvTerm, et)})
		} else if after.Term > before.Term {
			p.M.AddViolation(mon.Violation{Props: []string{"C16"}, Sig: "term-raised-right-after-leader-contact", Node: "p", Msg: fmt.Sprintf("node p answered leader %s of term %d and %d us later moved to term %d on a vote request of %s (election timeout %v)", leaderOf(term), term, elapsed.Microseconds(), after.Term, cand, et)})
		}
	}
	// not vacuous: once the election timeout has passed without contact the same kind of request is granted
	time.Sleep(et + et/4)
	if s := p.sample(); s != nil {
		if resp, err := p.rv("A", s.Term+2, 1000, s.Term+2, false); err == nil && resp.VoteGranted {
			p.x.count("sticky.granted_after_timeout", 1)
		}
	}
}

func init() {
	Registry["puppet.sticky"] = func(x *Ctx) {
		if _, ok := x.P["etms"]; !ok {
			x.P["etms"] = "100"
		}
		runPuppetCases(x, x.P.Int("cases", 6), shim.FSMOpts{Seed: x.Seed, SnapThreshold: x.P.Int("snapthr", 0), RestoreUs: x.P.Int("restoreus", 0)}, puppetSticky)
	}
}

// ---------------------------------------------------------------- C06 / C11 / C04: requests that overlap an installation which waits for an application in flight

// puppetISWindow: the follower holds a stale uncommitted tail (leader of term 1) that reaches beyond the label of
// the snapshot the leader of term 3 sends, and its state machine is busy applying an earlier committed entry
// (fixed, long Apply) when the final chunk arrives. The installation has to wait for that application before it
// may restore. Meanwhile the leader behaves as the library's sender does: it retransmits the chunk with the next
// heartbeat, and once a retransmission is acknowledged as complete it continues with AppendEntries right after
// the label (entries + commit index). Until the log has been replaced the follower's entry at the label is the
// stale one, so such a request must not succeed: a success acknowledges entries on top of a prefix the sender
// does not have (log matching), lets the commit index cover the stale entries, and the entries it acknowledged
// are thrown away by the log replacement that follows.
func puppetISWindow(p *puppet, r *rand.Rand) {
	cfg := p.cfgBytes
	op := func(i, t uint64) wEntry {
		return wEntry{Index: i, Term: t, Type: raft.OperationEntry, Data: []byte(fmt.Sprintf("op-t%d-i%d", t, i))}
	}
	w := &world{cfg: cfg}
	tail := 2 + r.Intn(3) // stale entries after the common prefix (indices 3..2+tail)
	w.L[1] = []wEntry{{Index: 1, Term: 1, Type: raft.ConfigurationEntry, Data: cfg}, op(2, 1)}
	for i := 0; i < tail; i++ {
		w.L[1] = append(w.L[1], op(uint64(3+i), 1))
	}
	w.C[1] = 2
	w.L[2] = append(append([]wEntry(nil), w.L[1][:2]...), op(3, 2))
	w.C[2] = 2
	w.L[3] = append([]wEntry(nil), w.L[1][:2]...)
	n3 := tail + 1 + r.Intn(3)
	for i := 0; i < n3; i++ {
		w.L[3] = append(w.L[3], op(uint64(3+i), 3))
	}
	s := 3 + r.Intn(tail) // label inside the stale tail: the follower's entry there has term 1, the snapshot says 3
	w.C[3] = s + r.Intn(len(w.L[3])-s+1)
	p.w = w
	// the follower stores the whole log of leader 1 and starts applying index 2 (slow)
	p.ae(1, 1, 1, len(w.L[1])-1, 2)
	time.Sleep(5 * time.Millisecond) // the apply loop has picked up index 2 (it stays inside Apply for applyus)
	cnt, chn, lst := w.canon(3, s)
	data := shim.EncodeSnap(cnt, chn, lst, r.Intn(3)*50)
	p.M.Emit(mon.Event{Kind: mon.KWorldSnap, Node: leaderOf(3), Idx: uint64(s), Term: 3, Num: int64(len(data)), Hash: mon.HashBytes(data), Cnt: cnt, Chn: chn})
	ev := mon.Event{Kind: mon.KWorldCommit}
	for i := 1; i <= w.C[3]; i++ {
		ev.Ents = append(ev.Ents, p.C.Net.EntryOf(w.ents(3, i, i)[0]))
	}
	p.M.Emit(ev)
	req := raft.InstallSnapshotRequest{LeaderID: leaderOf(3), Term: 3, LastIncludedIndex: uint64(s), LastIncludedTerm: 3, Configuration: cfg, Bytes: data, Offset: 0, Done: true}
	p.log("IS(term 3, label %d/3, %d bytes, done) while index 2 is being applied", s, len(data))
	p.M.Emit(mon.Event{Kind: mon.KNote, Str: "concurrent-requests"})
	first := make(chan error, 1)
	go func() {
		_, err := p.eps["A"].SendInstallSnapshot("p", req)
		first <- err
	}()
	time.Sleep(10 * time.Millisecond)
	returned := false
	select {
	case <-first:
		returned = true
	default:
		p.x.count("iswindow.install_waiting", 1)
	}
	if !returned {
		// retransmission with the next heartbeat
		resp, err := p.eps["A"].SendInstallSnapshot("p", req)
		p.log("  retransmission -> written=%d err=%v", resp.BytesWritten, err)
		if err == nil && resp.BytesWritten == int64(len(data)) {
			p.x.count("iswindow.retransmission_acked", 1)
		}
	}
	// the leader continues after the label
	n := r.Intn(len(w.L[3]) - s + 1)
	aresp, aerr := p.ae(3, 3, s, n, w.C[3])
	if aerr == nil && !returned {
		select {
		case <-first:
			returned = true
		default:
			p.x.count("iswindow.ae_during_wait", 1)
			if aresp.Success {
				p.x.count("iswindow.ae_success_during_wait", 1)
			}
		}
	}
	p.sample()
	if !returned {
		select {
		case <-first:
		case <-time.After(2 * time.Second):
			p.log("  (first invocation still parked)")
		}
	}
	p.sample()
	// the leader carries on from whatever the follower tells it (at most a few rounds), then everything is announced
	next := s + n + 1
	for round := 0; round < 6; round++ {
		prev := next - 1
		if prev > len(w.L[3]) {
			prev = len(w.L[3])
		}
		resp, err := p.ae(3, 3, prev, len(w.L[3])-prev, w.C[3])
		if err != nil {
			break
		}
		if resp.Success {
			break
		}
		next = int(resp.Index)
		if next <= s {
			// the follower asks for entries inside the snapshot: the sender would send the snapshot again
			p.is(req)
			next = s + 1
		}
	}
	time.Sleep(5 * time.Millisecond)
	p.sample()
	if r.Intn(2) == 0 {
		p.crashRestart()
		time.Sleep(5 * time.Millisecond)
		p.sample()
	}
	p.probes(r)
}

func init() {
	Registry["puppet.iswindow"] = func(x *Ctx) {
		if _, ok := x.P["etms"]; !ok {
			x.P["etms"] = "150" // the node must stay a follower while its state machine is busy
		}
		// snapthr=2,snapus=N,applyus=0: the installation waits for a local snapshot (slow Snapshot) instead of an Apply
		runPuppetCases(x, x.P.Int("cases", 6), shim.FSMOpts{Seed: x.Seed, ApplyFixUs: x.P.Int("applyus", 60000), SnapThreshold: x.P.Int("snapthr", 0), SnapFixUs: x.P.Int("snapus", 0)}, puppetISWindow)
	}
}
