package scen

import (
	"math/rand"
	"strconv"

	"verif/harness/simnet"
)

type simnetLink = simnet.Link
type simnetRule = simnet.Rule

func simnetNewGate() *simnet.Gate { return simnet.NewGate() }

func init() {
	// W1: random fault schedules, static membership
	Registry["w1"] = func(x *Ctx) {
		r := x.R
		pf := Profile{
			Voters:     x.P.Int("voters", 1+r.Intn(5)),
			Clients:    x.P.Int("clients", 2+r.Intn(6)),
			Steps:      x.P.Int("steps", 10+r.Intn(25)),
			Crash:      x.P.Str("crash", "1") == "1",
			Reads:      x.P.Bool("reads"),
			LeaseReads: x.P.Bool("leasereads"),
			Snapshots:  x.P.Bool("snapshots"),
			Torn:       x.P.Bool("torn"),
			CrashBias:  x.P.Bool("crashbias"),
			Bounce:     x.P.Bool("bounce"),
			Hold:       x.P.Bool("hold"),
		}
		RandomSchedule(x, pf)
	}
}

// SnapshotProfile draws snapshot-related options from the seed (called by vrun before the cluster is built).
func SnapshotProfile(seed int64, P Params) {
	r := rand.New(rand.NewSource(seed ^ 0x51a9))
	set := func(k string, v int) {
		if _, ok := P[k]; !ok {
			P[k] = strconv.Itoa(v)
		}
	}
	set("snapthr", 4+r.Intn(27))
	pads := []int{0, 0, 100, 20000, 32*1024 - 40, 32*1024 - 39, 40000, 70000, 115000}
	set("pad", pads[r.Intn(len(pads))])
	switch r.Intn(4) {
	case 0: // slow Snapshot, fast Apply
		set("snapus", 2000+r.Intn(6000))
	case 1: // slow Apply inside the state machine's critical section
		set("applyin", 200+r.Intn(1500))
	case 2: // slow Apply before taking the state machine's lock, slow Restore
		set("applypre", 200+r.Intn(1500))
		set("restoreus", 1000+r.Intn(5000))
	default:
		set("applyin", r.Intn(400))
		set("snapus", r.Intn(3000))
		set("snappre", r.Intn(2000))
		set("restoreus", r.Intn(3000))
	}
}
