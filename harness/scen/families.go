package scen

import (
	"verif/harness/simnet"
)

type simnetLink = simnet.Link

func init() {
	// W1: random fault schedules, static membership
	Registry["w1"] = func(x *Ctx) {
		r := x.R
		pf := Profile{
			Voters:  x.P.Int("voters", 1+r.Intn(5)),
			Clients: x.P.Int("clients", 2+r.Intn(6)),
			Steps:   x.P.Int("steps", 10+r.Intn(25)),
			Crash:   x.P.Str("crash", "1") == "1",
			Reads:   x.P.Bool("reads"),
			LeaseReads: x.P.Bool("leasereads"),
			Snapshots:  x.P.Bool("snapshots"),
			Torn:       x.P.Bool("torn"),
		}
		RandomSchedule(x, pf)
	}
}
