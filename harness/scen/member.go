package scen

import (
	"fmt"
	"sync"
	"time"

	"verif/harness/mon"
	"verif/harness/simnet"
)

// ---------------------------------------------------------------- membership (C09)

// ensureNode creates and starts a fresh, empty node (it starts as a non-voter of nothing).
func (x *Ctx) ensureNode(id string) bool {
	if x.C.Node(id) != nil {
		return true
	}
	n, err := x.C.AddNode(id)
	if err != nil {
		x.Note("AddNode %s: %v", id, err)
		return false
	}
	if err := n.Start(); err != nil {
		x.Note("Start %s: %v", id, err)
		return false
	}
	return true
}

// memberOp submits one membership request to a node and returns the recorded operation. Requests that would
// leave the cluster without a single voter are not generated (afterwards no majority of voters can be running,
// which every progress property presupposes).
func (x *Ctx) memberOp(target string, add bool, server string, voter bool, timeout time.Duration) *mon.Op {
	if add && !x.ensureNode(server) {
		return nil
	}
	if nd := x.C.Node(target); nd != nil {
		if s := nd.Sample(); s != nil && s.Cfg != nil {
			left := 0
			for id, v := range s.Cfg.Members {
				if v && !(id == server && (!add || !voter)) {
					left++
				}
			}
			if add && voter {
				left++
			}
			if left == 0 {
				return nil
			}
		}
	}
	return x.C.Member(80, nextOp(map[bool]string{true: "add", false: "rem"}[add]), add, server, voter, target, timeout)
}

// scenMemberRandom: W1-style random schedule with membership steps.
func scenMemberRandom(x *Ctx) {
	r := x.R
	k := x.P.Int("voters", 1+r.Intn(4))
	all := ids(k)
	if !x.StartCluster(all) {
		return
	}
	if x.C.WaitLeader(5*time.Second) == "" {
		x.Inconclusive("no initial leader")
		return
	}
	spare := []string{"m1", "m2", "m3"}
	x.StartClients(3, ClientMix{WritePct: 80, LinReadPct: 20, Timeouts: []time.Duration{20 * time.Millisecond, 100 * time.Millisecond, 400 * time.Millisecond}, ThinkMaxUs: 4000, LeaderBias: 70})
	everyone := func() []string { return x.C.IDs() }
	steps := x.P.Int("steps", 10+r.Intn(14))
	for s := 0; s < steps; s++ {
		time.Sleep(time.Duration(10+r.Intn(90)) * time.Millisecond)
		l := x.C.Leader()
		target := l
		if target == "" || r.Intn(6) == 0 {
			up := x.C.UpIDs()
			if len(up) == 0 {
				continue
			}
			target = pick(r, up) // requests to non-leaders too
		}
		to := time.Duration(30+r.Intn(300)) * time.Millisecond
		switch kind := r.Intn(14); {
		case kind < 2:
			sv := pick(r, spare)
			x.Step("add %s as non-voter via %s", sv, target)
			x.memberOp(target, true, sv, false, to)
		case kind < 4:
			sv := pick(r, spare)
			x.Step("add/promote %s as voter via %s", sv, target)
			x.memberOp(target, true, sv, true, to)
		case kind < 6:
			cand := minus(everyone(), []string{l})
			if len(cand) == 0 {
				continue
			}
			sv := pick(r, cand)
			x.Step("remove %s via %s", sv, target)
			x.memberOp(target, false, sv, false, to)
		case kind == 6:
			if l != "" {
				x.Step("remove the leader %s", l)
				x.memberOp(l, false, l, false, to)
			}
		case kind == 7:
			// back-to-back without waiting for the first to finish
			a, b := pick(r, spare), pick(r, spare)
			x.Step("back-to-back: remove %s, add %s (no waiting)", a, b)
			var wg sync.WaitGroup
			wg.Add(2)
			go func() { defer wg.Done(); x.memberOp(target, false, a, false, to) }()
			go func() { defer wg.Done(); x.memberOp(target, true, b, r.Intn(2) == 0, to) }()
			wg.Wait()
		case kind == 8:
			ev := everyone()
			if len(ev) < 2 {
				continue
			}
			ka := 1 + r.Intn(len(ev)-1)
			a := subset(r, ev, ka)
			b := minus(ev, a)
			x.Step("partition %v | %v", a, b)
			x.C.Net.Partition(a, b)
		case kind == 9:
			x.Step("heal")
			x.C.Net.Heal()
		case kind == 10:
			up := x.C.UpIDs()
			if len(up) == 0 {
				continue
			}
			id := pick(r, up)
			x.Step("crash %s", id)
			x.C.Node(id).Crash("member")
			x.C.Node(id).WaitDown(time.Second)
		case kind == 11:
			for _, id := range everyone() {
				if !x.C.Node(id).IsUp() {
					x.Step("restart %s", id)
					x.C.Node(id).WaitDown(time.Second)
					x.C.Node(id).Restart()
					break
				}
			}
		case kind == 12:
			if l != "" {
				x.Step("isolate leader %s", l)
				x.C.Net.Partition([]string{l}, minus(everyone(), []string{l}))
			}
		default:
			x.Step("heal")
			x.C.Net.Heal()
		}
	}
	x.finishDirected()
}

// scenMemberLag: followers that have not yet learnt (applied) two single-server additions elect a leader among
// themselves under the old configuration.
func scenMemberLag(x *Ctx) {
	r := x.R
	all, a, ok := x.startStatic(3)
	if !ok {
		return
	}
	x.Writes(1, a, 3, time.Second)
	bc := x.others(a)
	b, c := bc[0], bc[1]
	if !x.ensureNode("d") || !x.ensureNode("e") {
		return
	}
	// from now on the old followers never learn that anything new is committed
	s0 := x.C.Node(a).Sample()
	if s0 == nil {
		return
	}
	c0 := s0.Commit
	x.C.Net.AddRule(&simnet.Rule{Name: "hold-commit-news", Drop: true, Match: func(m *mon.Msg, reply bool) bool {
		return !reply && m.Kind == "AE" && (m.To == b || m.To == c) && m.Commit > c0
	}})
	// let the entry itself through to b once, by sending it before the commit moves: the leader's first
	// AppendEntries for the new entry still carries the old commit index
	x.Step("add d as voter; b receives the entry, nobody among b,c learns that it is committed")
	x.memberOp(a, true, "d", true, 400*time.Millisecond)
	x.WaitFor(2*time.Second, func() bool {
		s := x.C.Node(a).Sample()
		return s != nil && s.CCfg != nil && s.CCfg.Members["d"]
	})
	x.Step("partition {a,d,e} | {b,c}")
	x.C.Net.Partition([]string{a, "d", "e"}, []string{b, c})
	x.Step("add e as voter and write with {a,d,e}")
	x.memberOp(a, true, "e", true, 400*time.Millisecond)
	x.WaitFor(2*time.Second, func() bool {
		s := x.C.Node(a).Sample()
		return s != nil && s.CCfg != nil && s.CCfg.Members["e"]
	})
	x.Writes(2, a, 2+r.Intn(3), 500*time.Millisecond)
	x.Step("wait for what {b,c} do on their own")
	l2 := x.C.WaitLeaderAmong([]string{b, c}, 6*x.ET()+time.Second)
	if l2 != "" {
		x.Step("%s leads {b,c}; write there", l2)
		x.Writes(3, l2, 2, 500*time.Millisecond)
	}
	x.NT("member-lag")
	x.Step("heal")
	x.C.Net.Heal()
	time.Sleep(3 * x.ET())
	if l := x.C.Leader(); l != "" {
		x.Writes(4, l, 2, 500*time.Millisecond)
	}
	_ = all
	x.finishDirected()
}

// scenRemoveAdd: removal is submitted and, without waiting for it, another change follows; the leader is
// partitioned from some followers meanwhile (C09 b, c).
func scenRemoveAdd(x *Ctx) {
	r := x.R
	n := 3 + r.Intn(2)
	all, l, ok := x.startStatic(n)
	if !ok {
		return
	}
	x.Writes(1, l, 2, time.Second)
	f := x.others(l)
	victim := f[0]
	if r.Intn(3) == 0 {
		victim = l // the leader removes itself
	}
	if r.Intn(2) == 0 {
		cut := subset(r, minus(all, []string{l}), 1)
		x.Step("cut leader %s <-> %v", l, cut)
		x.C.Net.Partition([]string{l}, cut)
	}
	x.Step("remove %s, immediately add m1 as voter, immediately remove %s", victim, f[len(f)-1])
	var wg sync.WaitGroup
	for i, f := range []func(){
		func() { x.memberOp(l, false, victim, false, 300*time.Millisecond) },
		func() { x.memberOp(l, true, "m1", true, 300*time.Millisecond) },
		func() { x.memberOp(l, false, f[len(f)-1], false, 300*time.Millisecond) },
	} {
		wg.Add(1)
		go func(i int, f func()) {
			defer wg.Done()
			time.Sleep(time.Duration(i) * time.Millisecond)
			f()
		}(i, f)
	}
	w := x.WritesAsync(2, l, 3, 200*time.Millisecond)
	wg.Wait()
	w()
	time.Sleep(2 * x.ET())
	x.Step("heal")
	x.C.Net.Heal()
	time.Sleep(2 * x.ET())
	if cur := x.C.Leader(); cur != "" {
		x.Writes(3, cur, 2, 500*time.Millisecond)
	}
	x.NT("remove-add")
	x.finishDirected()
}

// scenNonVoterQuorum: the only reachable peers of a leader / candidate are non-voters (C09 e).
func scenNonVoterQuorum(x *Ctx) {
	r := x.R
	all, l, ok := x.startStatic(3)
	if !ok {
		return
	}
	x.Writes(1, l, 2, time.Second)
	if !x.addServer(l, "nv1", false) || !x.addServer(x.C.Leader(), "nv2", false) {
		x.Inconclusive("could not add the non-voters")
		return
	}
	l = x.C.Leader()
	if l == "" {
		return
	}
	voters := minus(all, []string{l})
	side := []string{l, "nv1", "nv2"}
	if r.Intn(2) == 0 {
		// a follower voter with only non-voters: it must never get elected
		fv := voters[0]
		side = []string{fv, "nv1", "nv2"}
		x.Step("partition %v | rest", side)
		x.C.Net.Partition(side, minus(x.C.IDs(), side))
		time.Sleep(5 * x.ET())
	} else {
		x.Step("leader %s keeps only the non-voters", l)
		x.C.Net.Partition(side, voters)
		// nothing may commit on the leader's side
		w := x.WritesAsync(2, l, 3, 300*time.Millisecond)
		rd := x.readsAsync(7, l, "LR", 10, 100*time.Millisecond, 5*time.Millisecond)
		w()
		rd()
	}
	x.NT("non-voter-quorum")
	x.Step("heal")
	x.C.Net.Heal()
	x.finishDirected()
}

func init() {
	Registry["w2.members"] = scenMemberRandom
	Registry["w2.memberlag"] = scenMemberLag
	Registry["w2.removeadd"] = scenRemoveAdd
	Registry["w2.nvquorum"] = scenNonVoterQuorum
	_ = fmt.Sprintf
}

// scenPromoteSplit: a new voter is added (3 -> 4 or 1 -> 2 voters) and, while that change is pending, the leader
// and the new voter are cut off from the other voters: exactly half of the new configuration must not be able
// to commit anything, while the others may legitimately go on under the configuration they know.
func scenPromoteSplit(x *Ctx) {
	r := x.R
	n := []int{3, 3, 1}[r.Intn(3)]
	all, a, ok := x.startStatic(n)
	if !ok {
		return
	}
	x.Writes(1, a, 3, time.Second)
	if r.Intn(2) == 0 {
		if !x.addServer(a, "d", false) { // synced non-voter first, then promoted
			x.Inconclusive("could not add the non-voter")
			return
		}
		a = x.C.Leader()
		if a == "" {
			return
		}
	} else if !x.ensureNode("d") {
		return
	}
	rest := minus(all, []string{a})
	// the promotion entry must not reach the old voters
	x.C.Net.AddRule(&simnet.Rule{Name: "cut-old-voters", Drop: true, Match: func(m *mon.Msg, reply bool) bool {
		if reply {
			return false
		}
		for _, o := range rest {
			if (m.From == a || m.From == "d") && m.To == o || m.From == o && (m.To == a || m.To == "d") {
				return true
			}
		}
		return false
	}})
	x.Step("partition {%s,d} | %v, then make d a voter at %s and write there", a, rest, a)
	w1 := func() { x.memberOp(a, true, "d", true, 400*time.Millisecond) }
	var wg sync.WaitGroup
	wg.Add(1)
	go func() { defer wg.Done(); w1() }()
	time.Sleep(5 * time.Millisecond)
	w := x.WritesAsync(2, a, 3, 400*time.Millisecond)
	if len(rest) > 0 {
		if l2 := x.C.WaitLeaderAmong(rest, 6*x.ET()+time.Second); l2 != "" {
			x.Step("%s leads the old voters; write there", l2)
			x.Writes(3, l2, 3, 500*time.Millisecond)
		}
	}
	w()
	wg.Wait()
	x.NT("promote-split")
	x.Step("heal")
	x.C.Net.Heal()
	time.Sleep(3 * x.ET())
	if l := x.C.Leader(); l != "" {
		x.Writes(4, l, 2, 500*time.Millisecond)
	}
	x.finishDirected()
}

func init() { Registry["w2.promotesplit"] = scenPromoteSplit }
