package scen

import (
	"bytes"
	"fmt"
	"io"
	"math"
	"math/rand"
	"net"
	"os"
	"path/filepath"
	"reflect"
	"sort"
	"sync"
	"time"

	"github.com/jmsadair/raft"
	"github.com/jmsadair/raft/logging"

	"verif/harness/mon"
)

// W6 — codec round trips through the bundled gRPC transport and the file-backed storages.

func freeAddr() string {
	l, err := net.Listen("tcp", "127.0.0.1:0")
	if err != nil {
		panic(err)
	}
	a := l.Addr().String()
	l.Close()
	return a
}

var u64s = []uint64{0, 1, 2, 127, 128, 1 << 31, 1<<32 - 1, 1 << 32, 1 << 62, 1 << 63, math.MaxUint64 - 1, math.MaxUint64}
var i64s = []int64{0, 1, 127, 128, 1 << 31, 1 << 40, math.MaxInt64, -1, math.MinInt64}
var idstrs = []string{"", "n1", "node-with-a-much-longer-identifier-0123456789", "nœud-3", "节点四", "id with spaces\tand\ttabs", "\x00nul", "emoji-🚀"}

func rU64(r *rand.Rand) uint64 {
	if r.Intn(3) == 0 {
		return r.Uint64()
	}
	return u64s[r.Intn(len(u64s))]
}
func rI64(r *rand.Rand) int64 {
	if r.Intn(3) == 0 {
		return int64(r.Uint64())
	}
	return i64s[r.Intn(len(i64s))]
}
func rID(r *rand.Rand) string { return idstrs[r.Intn(len(idstrs))] }

func rBytes(r *rand.Rand, big bool) []byte {
	switch k := r.Intn(8); {
	case k == 0:
		return nil
	case k == 1:
		return []byte{}
	case k == 2:
		return []byte{byte(r.Intn(256))}
	case k == 3 && big:
		b := make([]byte, 64*1024+r.Intn(3)-1)
		r.Read(b)
		return b
	case k == 4 && big && r.Intn(4) == 0:
		b := make([]byte, 1<<20)
		r.Read(b)
		return b
	default:
		b := make([]byte, 1+r.Intn(200))
		r.Read(b)
		return b
	}
}

func eqBytes(a, b []byte) bool { return bytes.Equal(a, b) } // nil == empty: proto3 cannot tell them apart

type codecCtx struct {
	x            *Ctx
	convNilEmpty int
	cases        int
	kinds        map[string]int
}

func (c *codecCtx) viol(sig, format string, args ...interface{}) {
	c.x.M.AddViolation(mon.Violation{Props: []string{"C19"}, Sig: sig, Msg: fmt.Sprintf(format, args...)})
}

func (c *codecCtx) noteNil(a, b []byte) {
	if (a == nil) != (b == nil) && len(a) == 0 && len(b) == 0 {
		c.convNilEmpty++
	}
}

func scenCodecWire(x *Ctx) {
	r := x.R
	c := &codecCtx{x: x, kinds: map[string]int{}}
	n := x.P.Int("cases", 300)
	addrA, addrB := freeAddr(), freeAddr()
	ta, err := raft.NewTransport(addrA)
	if err != nil {
		x.Inconclusive("NewTransport: %v", err)
		return
	}
	tb, err := raft.NewTransport(addrB)
	if err != nil {
		x.Inconclusive("NewTransport: %v", err)
		return
	}
	var mu sync.Mutex
	var gotAE *raft.AppendEntriesRequest
	var gotRV *raft.RequestVoteRequest
	var gotIS *raft.InstallSnapshotRequest
	var repAE raft.AppendEntriesResponse
	var repRV raft.RequestVoteResponse
	var repIS raft.InstallSnapshotResponse
	tb.RegisterAppendEntriesHandler(func(req *raft.AppendEntriesRequest, resp *raft.AppendEntriesResponse) error {
		mu.Lock()
		defer mu.Unlock()
		cp := *req
		gotAE = &cp
		*resp = repAE
		return nil
	})
	tb.RegisterRequestVoteHandler(func(req *raft.RequestVoteRequest, resp *raft.RequestVoteResponse) error {
		mu.Lock()
		defer mu.Unlock()
		cp := *req
		gotRV = &cp
		*resp = repRV
		return nil
	})
	tb.RegsiterInstallSnapshotHandler(func(req *raft.InstallSnapshotRequest, resp *raft.InstallSnapshotResponse) error {
		mu.Lock()
		defer mu.Unlock()
		cp := *req
		gotIS = &cp
		*resp = repIS
		return nil
	})
	// the sender must have handlers too (never called)
	ta.RegisterAppendEntriesHandler(func(*raft.AppendEntriesRequest, *raft.AppendEntriesResponse) error { return nil })
	ta.RegisterRequestVoteHandler(func(*raft.RequestVoteRequest, *raft.RequestVoteResponse) error { return nil })
	ta.RegsiterInstallSnapshotHandler(func(*raft.InstallSnapshotRequest, *raft.InstallSnapshotResponse) error { return nil })
	if err := tb.Run(); err != nil {
		x.Inconclusive("transport Run: %v", err)
		return
	}
	if err := ta.Run(); err != nil {
		x.Inconclusive("transport Run: %v", err)
		return
	}
	defer ta.Shutdown()
	defer tb.Shutdown()
	// wait until the server answers
	okc := false
	for i := 0; i < 200; i++ {
		if _, err := ta.SendRequestVote(addrB, raft.RequestVoteRequest{}); err == nil {
			okc = true
			break
		}
		time.Sleep(10 * time.Millisecond)
	}
	if !okc {
		x.Inconclusive("loopback transport did not come up")
		return
	}
	for i := 0; i < n; i++ {
		c.cases++
		switch r.Intn(3) {
		case 0:
			c.kinds["AE"]++
			req := raft.AppendEntriesRequest{LeaderID: rID(r), Term: rU64(r), LeaderCommit: rU64(r), PrevLogIndex: rU64(r), PrevLogTerm: rU64(r)}
			ne := []int{0, 0, 1, 2, 5, 40}[r.Intn(6)]
			for j := 0; j < ne; j++ {
				req.Entries = append(req.Entries, &raft.LogEntry{Index: rU64(r), Term: rU64(r), Data: rBytes(r, ne < 5), EntryType: raft.LogEntryType(r.Intn(3))})
			}
			if r.Intn(10) == 0 {
				// a batch of several large entries: 1.2 - 3.6 MiB in total, below the transport's message limit
				req.Entries = nil
				ne = 2 + r.Intn(5)
				per := (1200*1024 + r.Intn(2400*1024)) / ne
				for j := 0; j < ne; j++ {
					b := make([]byte, per+r.Intn(1000))
					r.Read(b)
					req.Entries = append(req.Entries, &raft.LogEntry{Index: rU64(r), Term: rU64(r), Data: b, EntryType: raft.LogEntryType(r.Intn(3))})
				}
				c.kinds["AE-large-batch"]++
			}
			mu.Lock()
			repAE = raft.AppendEntriesResponse{Term: rU64(r), Success: r.Intn(2) == 0, Index: rU64(r)}
			want := repAE
			gotAE = nil
			mu.Unlock()
			resp, err := ta.SendAppendEntries(addrB, req)
			if err != nil {
				c.viol("wire/ae-error", "AppendEntries request with %d entries failed: %v", ne, err)
				continue
			}
			mu.Lock()
			g := gotAE
			mu.Unlock()
			if g == nil {
				c.viol("wire/ae-not-delivered", "handler not called")
				continue
			}
			if g.LeaderID != req.LeaderID || g.Term != req.Term || g.LeaderCommit != req.LeaderCommit || g.PrevLogIndex != req.PrevLogIndex || g.PrevLogTerm != req.PrevLogTerm || len(g.Entries) != len(req.Entries) {
				c.viol("wire/ae-header", "AppendEntries header arrived as %+v, sent %+v", *g, req)
				continue
			}
			for j := range req.Entries {
				a, b := req.Entries[j], g.Entries[j]
				if a.Index != b.Index || a.Term != b.Term || a.EntryType != b.EntryType || !eqBytes(a.Data, b.Data) {
					c.viol("wire/ae-entry", "entry %d arrived as (index %d, term %d, type %d, %d bytes), sent (index %d, term %d, type %d, %d bytes)", j, b.Index, b.Term, b.EntryType, len(b.Data), a.Index, a.Term, a.EntryType, len(a.Data))
					break
				}
				c.noteNil(a.Data, b.Data)
			}
			if resp != want {
				c.viol("wire/ae-response", "AppendEntries response arrived as %+v, sent %+v", resp, want)
			}
		case 1:
			c.kinds["RV"]++
			req := raft.RequestVoteRequest{CandidateID: rID(r), Term: rU64(r), LastLogIndex: rU64(r), LastLogTerm: rU64(r), Prevote: r.Intn(2) == 0}
			mu.Lock()
			repRV = raft.RequestVoteResponse{Term: rU64(r), VoteGranted: r.Intn(2) == 0}
			want := repRV
			gotRV = nil
			mu.Unlock()
			resp, err := ta.SendRequestVote(addrB, req)
			if err != nil {
				c.viol("wire/rv-error", "RequestVote failed: %v", err)
				continue
			}
			mu.Lock()
			g := gotRV
			mu.Unlock()
			if g == nil || *g != req {
				c.viol("wire/rv-request", "RequestVote arrived as %+v, sent %+v", g, req)
			}
			if resp != want {
				c.viol("wire/rv-response", "RequestVote response arrived as %+v, sent %+v", resp, want)
			}
		default:
			c.kinds["IS"]++
			req := raft.InstallSnapshotRequest{LeaderID: rID(r), Term: rU64(r), LastIncludedIndex: rU64(r), LastIncludedTerm: rU64(r), Configuration: rBytes(r, false), Bytes: rBytes(r, true), Offset: rI64(r), Done: r.Intn(2) == 0}
			if r.Intn(12) == 0 {
				// just under the default 4 MiB message limit
				req.Bytes = make([]byte, 4*1024*1024-4096-r.Intn(1000))
				r.Read(req.Bytes[:1024])
			}
			mu.Lock()
			repIS = raft.InstallSnapshotResponse{Term: rU64(r), BytesWritten: rI64(r)}
			want := repIS
			gotIS = nil
			mu.Unlock()
			resp, err := ta.SendInstallSnapshot(addrB, req)
			if err != nil {
				c.viol("wire/is-error", "InstallSnapshot with %d bytes failed: %v", len(req.Bytes), err)
				continue
			}
			mu.Lock()
			g := gotIS
			mu.Unlock()
			if g == nil || g.LeaderID != req.LeaderID || g.Term != req.Term || g.LastIncludedIndex != req.LastIncludedIndex || g.LastIncludedTerm != req.LastIncludedTerm || g.Offset != req.Offset || g.Done != req.Done || !eqBytes(g.Configuration, req.Configuration) || !eqBytes(g.Bytes, req.Bytes) {
				c.viol("wire/is-request", "InstallSnapshot (label %d/%d, offset %d, %d bytes, done %v) arrived different", req.LastIncludedIndex, req.LastIncludedTerm, req.Offset, len(req.Bytes), req.Done)
			} else {
				c.noteNil(req.Bytes, g.Bytes)
				c.noteNil(req.Configuration, g.Configuration)
			}
			if resp != want {
				c.viol("wire/is-response", "InstallSnapshot response arrived as %+v, sent %+v", resp, want)
			}
		}
	}
	// a request over the message limit must fail with an error, never deliver something different
	big := raft.InstallSnapshotRequest{LeaderID: "x", Bytes: make([]byte, 5*1024*1024)}
	mu.Lock()
	gotIS = nil
	mu.Unlock()
	if _, err := ta.SendInstallSnapshot(addrB, big); err == nil {
		mu.Lock()
		g := gotIS
		mu.Unlock()
		if g == nil || len(g.Bytes) != len(big.Bytes) {
			c.viol("wire/oversize-silently-changed", "a 5 MiB request returned no error but did not arrive intact")
		}
		c.kinds["oversize-delivered"]++
	} else {
		c.kinds["oversize-rejected"]++
	}
	x.count("codec.wire_cases", c.cases)
	x.count("codec.nil_empty_conversions", c.convNilEmpty)
	for k, v := range c.kinds {
		x.count("codec.wire."+k, v)
	}
	x.NT("wire")
	x.Res.Steps = append(x.Res.Steps, fmt.Sprintf("wire: %d cases %v", c.cases, c.kinds))
}

func scenCodecStorage(x *Ctx) {
	r := x.R
	c := &codecCtx{x: x, kinds: map[string]int{}}
	n := x.P.Int("cases", 120)
	for i := 0; i < n; i++ {
		dir := filepath.Join(x.Root, fmt.Sprintf("st-%d", i))
		os.MkdirAll(dir, 0o755)
		c.cases++
		switch r.Intn(4) {
		case 0: // log
			c.kinds["log"]++
			func() {
				defer func() {
					if p := recover(); p != nil {
						c.viol("storage/log-panic", "log round trip panicked: %v", p)
					}
				}()
				l, err := raft.NewLog(dir)
				if err != nil || l.Open() != nil || l.Replay() != nil {
					c.viol("storage/log-open", "cannot open log: %v", err)
					return
				}
				base := uint64(0)
				if r.Intn(2) == 0 {
					base = rU64(r)
					if base > math.MaxUint64-100 {
						base = math.MaxUint64 - 100
					}
					if err := l.DiscardEntries(base, rU64(r)); err != nil {
						c.viol("storage/log-discard", "DiscardEntries: %v", err)
						return
					}
				}
				var want []Ent
				k := 1 + r.Intn(6)
				for j := 0; j < k; j++ {
					want = append(want, Ent{Index: base + uint64(j) + 1, Term: rU64(r), Type: uint32(r.Intn(3)), Data: rBytes(r, j < 2)})
				}
				if r.Intn(2) == 0 {
					for _, e := range want {
						if err := l.AppendEntry(toEntry(e)); err != nil {
							c.viol("storage/log-append", "AppendEntry: %v", err)
							return
						}
					}
				} else {
					es := make([]*raft.LogEntry, len(want))
					for j, e := range want {
						es[j] = toEntry(e)
					}
					if err := l.AppendEntries(es); err != nil {
						c.viol("storage/log-append", "AppendEntries: %v", err)
						return
					}
				}
				// optionally compact, reopen, replace the tail and reopen again: what is read back must still be
				// what was written
				if len(want) >= 3 && r.Intn(2) == 0 {
					k := 1 + r.Intn(len(want)-2)
					if err := l.Compact(want[k-1].Index); err != nil {
						c.viol("storage/log-compact", "Compact: %v", err)
						return
					}
					l.Close()
					lm, err := openLogAt(dir)
					if err != nil {
						c.viol("storage/log-reopen", "reopen after compaction: %v", err)
						return
					}
					cut := want[len(want)-1]
					if err := lm.Truncate(cut.Index); err != nil {
						c.viol("storage/log-truncate", "Truncate after compaction+reopen: %v", err)
						return
					}
					repl := Ent{Index: cut.Index, Term: rU64(r), Type: uint32(r.Intn(3)), Data: rBytes(r, false)}
					if err := lm.AppendEntry(toEntry(repl)); err != nil {
						c.viol("storage/log-append", "AppendEntry after truncate: %v", err)
						return
					}
					lm.Close()
					base = want[k-1].Index
					want = append(append([]Ent(nil), want[k:len(want)-1]...), repl)
					l = lm
					c.kinds["log-compacted"]++
				}
				l.Close()
				l2, err := openLogAt(dir)
				if err != nil {
					c.viol("storage/log-reopen", "reopen: %v", err)
					return
				}
				defer l2.Close()
				got, err := readLog(l2)
				if err != nil {
					c.viol("storage/log-read", "%v", err)
					return
				}
				if got.Base.Index != base || len(got.Ents) != len(want) {
					c.viol("storage/log-content", "read back base %d with %d entries, wrote base %d with %d", got.Base.Index, len(got.Ents), base, len(want))
					return
				}
				for j := range want {
					if !sameEnt(want[j], got.Ents[j]) {
						c.viol("storage/log-entry", "entry %d read back as (index %d, term %d, type %d, %d bytes), wrote (index %d, term %d, type %d, %d bytes)", j, got.Ents[j].Index, got.Ents[j].Term, got.Ents[j].Type, len(got.Ents[j].Data), want[j].Index, want[j].Term, want[j].Type, len(want[j].Data))
						return
					}
					c.noteNil(want[j].Data, got.Ents[j].Data)
				}
			}()
		case 1: // term/vote
			c.kinds["state"]++
			s, err := raft.NewStateStorage(dir)
			if err != nil {
				c.viol("storage/state-open", "%v", err)
				continue
			}
			term, vote := rU64(r), rID(r)
			if err := s.SetState(term, vote); err != nil {
				c.viol("storage/state-set", "SetState(%d,%q): %v", term, vote, err)
				continue
			}
			s2, _ := raft.NewStateStorage(dir)
			t2, v2, err := s2.State()
			if err != nil || t2 != term || v2 != vote {
				c.viol("storage/state-roundtrip", "wrote (%d,%q), read (%d,%q,%v)", term, vote, t2, v2, err)
			}
		case 2: // configuration
			c.kinds["configuration"]++
			tr, _ := raft.NewTransport("127.0.0.1:0")
			members := map[string]string{}
			for j := 0; j < r.Intn(6); j++ {
				members[rID(r)+fmt.Sprint(j)] = rID(r)
			}
			cfg := raft.NewConfiguration(rU64(r), members)
			for id := range cfg.IsVoter {
				cfg.IsVoter[id] = r.Intn(2) == 0
			}
			data, err := tr.EncodeConfiguration(cfg)
			if err != nil {
				c.viol("storage/cfg-encode", "%v", err)
				continue
			}
			got, err := tr.DecodeConfiguration(data)
			if err != nil {
				c.viol("storage/cfg-decode", "%v", err)
				continue
			}
			same := got.Index == cfg.Index && len(got.Members) == len(cfg.Members) && len(got.IsVoter) == len(cfg.IsVoter)
			for id, a := range cfg.Members {
				if got.Members[id] != a || got.IsVoter[id] != cfg.IsVoter[id] {
					same = false
				}
			}
			if !same {
				c.viol("storage/cfg-roundtrip", "configuration %s decoded as %s", cfg.String(), got.String())
			}
			_ = reflect.DeepEqual
		default: // snapshot metadata + content
			c.kinds["snapshot"]++
			st, err := raft.NewSnapshotStorage(dir)
			if err != nil {
				c.viol("storage/snap-open", "%v", err)
				continue
			}
			idx, term, cfg, data := rU64(r), rU64(r), rBytes(r, false), rBytes(r, true)
			f, err := st.NewSnapshotFile(idx, term, cfg)
			if err != nil {
				c.viol("storage/snap-new", "%v", err)
				continue
			}
			f.Write(data)
			if err := f.Close(); err != nil {
				c.viol("storage/snap-close", "%v", err)
				continue
			}
			st2, _ := raft.NewSnapshotStorage(dir)
			g, err := st2.SnapshotFile()
			if err != nil || g == nil {
				c.viol("storage/snap-get", "SnapshotFile(): %v", err)
				continue
			}
			md := g.Metadata()
			back, _ := io.ReadAll(g)
			g.Close()
			if md.LastIncludedIndex != idx || md.LastIncludedTerm != term || !eqBytes(md.Configuration, cfg) || !eqBytes(back, data) {
				c.viol("storage/snap-roundtrip", "snapshot (index %d, term %d, cfg %d B, %d B) read back as (index %d, term %d, cfg %d B, %d B)", idx, term, len(cfg), len(data), md.LastIncludedIndex, md.LastIncludedTerm, len(md.Configuration), len(back))
			}
		}
		os.RemoveAll(dir)
	}
	x.count("codec.storage_cases", c.cases)
	x.count("codec.nil_empty_conversions", c.convNilEmpty)
	for k, v := range c.kinds {
		x.count("codec.storage."+k, v)
	}
	x.NT("storage")
	x.Res.Steps = append(x.Res.Steps, fmt.Sprintf("storage: %d cases %v", c.cases, c.kinds))
}

// blobFSM is a state machine whose snapshot is an arbitrary blob of a chosen size.
type blobFSM struct {
	mu       sync.Mutex
	blob     []byte
	restored []byte
	applied  int
	want     bool
}

func (f *blobFSM) Apply(op *raft.Operation) interface{} {
	f.mu.Lock()
	defer f.mu.Unlock()
	f.applied++
	return f.applied
}
func (f *blobFSM) Snapshot(w io.Writer) error {
	f.mu.Lock()
	b := f.blob
	f.mu.Unlock()
	_, err := w.Write(b)
	return err
}
func (f *blobFSM) Restore(r io.Reader) error {
	b, err := io.ReadAll(r)
	f.mu.Lock()
	f.restored = b
	f.mu.Unlock()
	return err
}
func (f *blobFSM) NeedSnapshot(n int) bool {
	f.mu.Lock()
	defer f.mu.Unlock()
	return f.want && n >= 3
}

// scenCodecE2E: two real nodes over the real transport; the leader snapshots N bytes, an empty follower joins
// and must restore exactly those bytes.
func scenCodecE2E(x *Ctx) {
	size := x.P.Int("size", 100*1024)
	a1, a2 := freeAddr(), freeAddr()
	d1, d2 := filepath.Join(x.Root, "e1"), filepath.Join(x.Root, "e2")
	blob := make([]byte, size)
	rand.New(rand.NewSource(x.Seed)).Read(blob)
	f1, f2 := &blobFSM{blob: blob, want: true}, &blobFSM{}
	opts := []raft.Option{raft.WithElectionTimeout(150 * time.Millisecond), raft.WithHeartbeatInterval(20 * time.Millisecond), raft.WithLogLevel(logging.Fatal)}
	n1, err := raft.NewRaft("e1", a1, f1, d1, opts...)
	if err != nil {
		x.Inconclusive("NewRaft: %v", err)
		return
	}
	n2, err := raft.NewRaft("e2", a2, f2, d2, opts...)
	if err != nil {
		x.Inconclusive("NewRaft: %v", err)
		return
	}
	if err := n1.Bootstrap(map[string]string{"e1": a1}); err != nil {
		x.Inconclusive("Bootstrap: %v", err)
		return
	}
	if err := n1.Start(); err != nil {
		x.Inconclusive("Start: %v", err)
		return
	}
	defer n1.Stop()
	if !x.WaitFor(5*time.Second, func() bool { return n1.Status().State == raft.Leader }) {
		x.Inconclusive("no leader")
		return
	}
	for i := 0; i < 8; i++ {
		n1.SubmitOperation([]byte(fmt.Sprintf("op%d", i)), raft.Replicated, time.Second).Await()
	}
	// wait until a snapshot exists (log compacted)
	if !x.WaitFor(5*time.Second, func() bool { return n1.VerifState().LastIncludedIndex > 0 }) {
		x.Inconclusive("leader took no snapshot")
		return
	}
	f1.mu.Lock()
	f1.want = false
	f1.mu.Unlock()
	if err := n2.Start(); err != nil {
		x.Inconclusive("Start follower: %v", err)
		return
	}
	defer n2.Stop()
	n1.AddServer("e2", a2, false, 300*time.Millisecond).Await()
	// bounded catch-up: counted in heartbeat intervals of the leader, generous
	arrived := x.WaitFor(20*time.Second, func() bool {
		f2.mu.Lock()
		defer f2.mu.Unlock()
		return f2.restored != nil
	})
	x.count("codec.e2e_runs", 1)
	x.Res.Steps = append(x.Res.Steps, fmt.Sprintf("end-to-end snapshot of %d bytes: arrived=%v", size, arrived))
	if !arrived {
		x.M.AddViolation(mon.Violation{Props: []string{"C19", "C15"}, Sig: "e2e/snapshot-never-arrives", Msg: fmt.Sprintf("a snapshot of %d bytes never reached the follower over the bundled transport (follower applied index %d after 20 s)", size, n2.Status().LastApplied)})
		return
	}
	f2.mu.Lock()
	got := f2.restored
	f2.mu.Unlock()
	if !bytes.Equal(got, blob) {
		x.M.AddViolation(mon.Violation{Props: []string{"C19"}, Sig: "e2e/snapshot-bytes-differ", Msg: fmt.Sprintf("follower restored %d bytes that differ from the %d bytes the leader's state machine wrote", len(got), len(blob))})
	}
	x.NT("e2e")
}

func init() {
	Registry["codec.wire"] = scenCodecWire
	Registry["codec.storage"] = scenCodecStorage
	Registry["codec.e2e"] = scenCodecE2E
	_ = sort.Strings
}
