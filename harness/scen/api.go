package scen

import (
	"fmt"
	"math/rand"
	"os"
	"path/filepath"
	"runtime"
	"sort"
	"strings"
	"sync"
	"time"

	"github.com/jmsadair/raft"
	"github.com/jmsadair/raft/logging"

	"verif/harness/mon"
	"verif/harness/shim"
	"verif/harness/simnet"
)

// W5 — API totality: bounded random sequences of public API calls with valid, boundary and invalid
// arguments, against a single node and against a 3-node cluster driven into each role. One child per sequence.

type apiCtx struct {
	x         *Ctx
	r         *rand.Rand
	calls     []string
	hangBound time.Duration
}

func (a *apiCtx) viol(sig, format string, args ...interface{}) {
	a.x.M.AddViolation(mon.Violation{Props: []string{"C18"}, Sig: sig, Msg: fmt.Sprintf(format, args...) + "  [calls: " + strings.Join(tail(a.calls, 12), "; ") + "]"})
}

func tail(xs []string, n int) []string {
	if len(xs) > n {
		return xs[len(xs)-n:]
	}
	return xs
}

// call runs one API call with panic capture and a hang watchdog.
func (a *apiCtx) call(desc string, f func()) bool {
	a.calls = append(a.calls, desc)
	a.x.count("api.calls", 1)
	done := make(chan interface{}, 1)
	go func() {
		defer func() {
			if p := recover(); p != nil {
				done <- fmt.Sprintf("%v", p)
				return
			}
			done <- nil
		}()
		f()
	}()
	select {
	case p := <-done:
		if p != nil {
			a.viol("panic/"+strings.Fields(desc)[0], "%s panicked: %v", desc, p)
			return false
		}
		return true
	case <-time.After(a.hangBound):
		// two goroutine dumps 5 s apart showing the caller parked at the same place
		d1 := dumpFor(desc)
		time.Sleep(5 * time.Second)
		select {
		case <-done:
			a.x.Note("%s returned after %v (slow, not a hang)", desc, a.hangBound+5*time.Second)
			return true
		default:
		}
		d2 := dumpFor(desc)
		if a.x.C.StallMaxNs.Load() > int64(time.Second) {
			a.x.Inconclusive("machine stalled (%d ms) while %s was running", a.x.C.StallMaxNs.Load()/1e6, desc)
			return false
		}
		a.viol("hang/"+strings.Fields(desc)[0], "%s did not return within %v; goroutine dumps 5 s apart:\n%s\n----\n%s", desc, a.hangBound+5*time.Second, d1, d2)
		return false
	}
}

func dumpFor(desc string) string {
	buf := make([]byte, 1<<20)
	n := runtime.Stack(buf, true)
	s := string(buf[:n])
	// keep the goroutines that sit inside the library
	var keep []string
	for _, g := range strings.Split(s, "\n\n") {
		if strings.Contains(g, "jmsadair/raft.") && len(keep) < 12 {
			lines := strings.Split(g, "\n")
			if len(lines) > 12 {
				lines = lines[:12]
			}
			keep = append(keep, strings.Join(lines, "\n"))
		}
	}
	return strings.Join(keep, "\n\n")
}

// await checks that a future resolves by its timeout (+ slack) and that a second Await returns the same.
func awaitOp(a *apiCtx, desc string, fut raft.Future[raft.OperationResponse], timeout time.Duration) (err error) {
	a.call("Await "+desc, func() {
		t0 := time.Now()
		res := fut.Await()
		el := time.Since(t0)
		if el > timeout+2*time.Second && a.x.C.StallMaxNs.Load() < int64(time.Second) {
			a.viol("future-late", "future of %s resolved after %v, its timeout was %v", desc, el, timeout)
		}
		res2 := fut.Await()
		if (res.Error() == nil) != (res2.Error() == nil) {
			a.viol("await-twice", "second Await of %s returned a different result", desc)
		}
		err = res.Error()
		a.x.count("api.futures", 1)
	})
	return err
}

func awaitCfg(a *apiCtx, desc string, fut raft.Future[raft.Configuration], timeout time.Duration) (cfg raft.Configuration, err error) {
	a.call("Await "+desc, func() {
		t0 := time.Now()
		res := fut.Await()
		el := time.Since(t0)
		if el > timeout+2*time.Second && a.x.C.StallMaxNs.Load() < int64(time.Second) {
			a.viol("future-late", "future of %s resolved after %v, its timeout was %v", desc, el, timeout)
		}
		fut.Await()
		err = res.Error()
		if err == nil {
			cfg = res.Success()
		}
		a.x.count("api.futures", 1)
	})
	return
}

var allStates = []raft.State{raft.Leader, raft.Follower, raft.PreCandidate, raft.Candidate, raft.Shutdown}
var allOpTypes = []raft.OperationType{raft.Replicated, raft.LinearizableReadOnly, raft.LeaseBasedReadOnly}

func (a *apiCtx) render() {
	for _, s := range allStates {
		s := s
		a.call(fmt.Sprintf("State(%d).String", s), func() { _ = s.String() })
	}
	for _, o := range allOpTypes {
		o := o
		a.call(fmt.Sprintf("OperationType(%d).String", o), func() { _ = o.String() })
	}
}

func (a *apiCtx) payload() []byte {
	switch a.r.Intn(5) {
	case 0:
		return nil
	case 1:
		return []byte{}
	case 2:
		return make([]byte, 200000)
	}
	return []byte(nextOp("api"))
}

func (a *apiCtx) timeout() time.Duration {
	return []time.Duration{0, time.Microsecond, 5 * time.Millisecond, 50 * time.Millisecond, 300 * time.Millisecond}[a.r.Intn(5)]
}

// useNode performs random calls on a node.
func (a *apiCtx) useNode(name string, nd *raft.Raft, n int, selfID string, lifecycle bool) {
	r := a.r
	for i := 0; i < n; i++ {
		switch k := r.Intn(14); {
		case k == 0:
			a.call(name+".Status", func() {
				st := nd.Status()
				_ = st.State.String()
			})
		case k == 1:
			a.call(name+".Configuration", func() {
				c := nd.Configuration()
				_ = c.String()
			})
		case k <= 5:
			ot := raft.OperationType(r.Intn(4)) // 3 = invalid type
			to := a.timeout()
			var fut raft.Future[raft.OperationResponse]
			d := fmt.Sprintf("%s.SubmitOperation(type %d, timeout %v)", name, ot, to)
			if a.call(d, func() { fut = nd.SubmitOperation(a.payload(), ot, to) }) && fut != nil {
				awaitOp(a, d, fut, to)
			}
		case k == 6:
			id := []string{selfID, "unknown-node", "n2", ""}[r.Intn(4)]
			to := a.timeout()
			var fut raft.Future[raft.Configuration]
			d := fmt.Sprintf("%s.AddServer(%q, voter %v, timeout %v)", name, id, i%2 == 0, to)
			if a.call(d, func() { fut = nd.AddServer(id, id, i%2 == 0, to) }) && fut != nil {
				awaitCfg(a, d, fut, to)
			}
		case k == 7:
			id := []string{"unknown-node", "n3", "", selfID}[r.Intn(4)]
			if id == selfID && r.Intn(3) != 0 {
				id = "unknown-node"
			}
			to := a.timeout()
			var fut raft.Future[raft.Configuration]
			d := fmt.Sprintf("%s.RemoveServer(%q, timeout %v)", name, id, to)
			if a.call(d, func() { fut = nd.RemoveServer(id, to) }) && fut != nil {
				awaitCfg(a, d, fut, to)
			}
		case k == 8:
			a.call(name+".Bootstrap(running/again)", func() { nd.Bootstrap(map[string]string{selfID: selfID}) })
		case k == 9 && lifecycle:
			a.call(name+".Stop", func() { nd.Stop() })
		case k == 10 && lifecycle:
			a.call(name+".Start", func() { nd.Start() })
		case k == 11 && lifecycle:
			a.call(name+".Restart", func() { nd.Restart() })
		case k == 12:
			a.render()
		default:
			time.Sleep(time.Duration(r.Intn(20)) * time.Millisecond)
		}
		if len(a.x.M.Fatals()) > 0 {
			return
		}
	}
}

// scenAPISingle: one node created with boundary options, ill-ordered life cycle.
func scenAPISingle(x *Ctx) {
	x.SkipOffline = true
	r := x.R
	a := &apiCtx{x: x, r: r, hangBound: 20 * time.Second}
	a.render()
	dir := filepath.Join(x.Root, "single")
	ets := []time.Duration{0, time.Millisecond, 500 * time.Microsecond, 1500 * time.Microsecond, -5 * time.Millisecond, 20 * time.Millisecond, 50 * time.Millisecond}
	hbs := []time.Duration{0, time.Millisecond, -time.Millisecond, 5 * time.Millisecond}
	leases := []time.Duration{0, time.Nanosecond, 10 * time.Millisecond, -time.Second}
	et, hb, lease := ets[r.Intn(len(ets))], hbs[r.Intn(len(hbs))], leases[r.Intn(len(leases))]
	id := []string{"n1", "n1", "", "nœud"}[r.Intn(4)]
	path := dir
	if r.Intn(8) == 0 {
		path = "/proc/verif-unwritable/x"
	}
	var nd *raft.Raft
	var err error
	m := mon.New()
	inc := &shim.Inc{M: m, Net: x.C.Net, Node: "s", N: 1, Dir: dir}
	fsm := shim.NewFSM(inc, shim.FSMOpts{SnapThreshold: 3})
	ep := x.C.Net.NewEndpoint(id, 1)
	desc := fmt.Sprintf("NewRaft(id %q, et %v, hb %v, lease %v, path %s)", id, et, hb, lease, path)
	a.call(desc, func() {
		opts := []raft.Option{raft.WithElectionTimeout(et), raft.WithHeartbeatInterval(hb), raft.WithLeaseDuration(lease), raft.WithLogLevel(logging.Fatal)}
		if r.Intn(2) == 0 {
			opts = append(opts, raft.WithTransport(ep))
			nd, err = raft.NewRaft(id, id, fsm, path, opts...)
		} else {
			nd, err = raft.NewRaft(id, "127.0.0.1:0", fsm, path, opts...)
		}
	})
	if nd == nil {
		x.Note("%s -> %v", desc, err)
		x.NT("api-single")
		return
	}
	self := nd.Status().ID
	addr := nd.Status().Address
	if r.Intn(4) != 0 {
		variants := []map[string]string{{self: addr}, {"other": "x"}, {self: "wrong-address"}, {self: addr, "peer": "peer"}}
		v := variants[r.Intn(len(variants))]
		a.call(fmt.Sprintf("Bootstrap(%v)", v), func() { nd.Bootstrap(v) })
		if r.Intn(3) == 0 {
			a.call("Bootstrap(again)", func() { nd.Bootstrap(map[string]string{self: addr}) })
		}
	}
	// ill-ordered life cycle mixed with use
	for round := 0; round < 3+r.Intn(4); round++ {
		switch r.Intn(5) {
		case 0:
			a.call("Start", func() { nd.Start() })
		case 1:
			a.call("Stop", func() { nd.Stop() })
		case 2:
			a.call("Restart", func() { nd.Restart() })
		case 3:
			a.call("Stop", func() { nd.Stop() })
			a.call("Start", func() { nd.Start() })
		default:
			a.call("Start", func() { nd.Start() })
		}
		time.Sleep(time.Duration(r.Intn(60)) * time.Millisecond)
		a.useNode("node", nd, 2+r.Intn(6), self, true)
		if len(x.M.Fatals()) > 0 {
			break
		}
	}
	a.call("Stop(final)", func() { nd.Stop() })
	os.RemoveAll(dir)
	x.NT("api-single")
	x.Res.Steps = append(x.Res.Steps, tail(a.calls, 40)...)
}

// scenAPICluster: a 3-node cluster on the simulated network; nodes are driven into each role and then used.
func scenAPICluster(x *Ctx) {
	x.SkipOffline = true
	r := x.R
	a := &apiCtx{x: x, r: r, hangBound: 20 * time.Second}
	all, l, ok := x.startStatic(3)
	if !ok {
		return
	}
	x.Writes(1, l, 2, time.Second)
	role := []string{"leader", "follower", "precandidate", "candidate", "shutdown", "deposed-leader"}[r.Intn(6)]
	target := l
	fol := x.others(l)
	switch role {
	case "follower":
		target = fol[0]
	case "precandidate":
		target = fol[0]
		x.C.Net.Partition([]string{target}, minus(all, []string{target}))
		x.WaitFor(2*time.Second, func() bool { s := x.C.Node(target).Sample(); return s != nil && s.State == "precandidate" })
	case "candidate":
		// two followers cut off together grant each other's prevote and become candidates
		target = fol[0]
		x.C.Net.Partition(fol, []string{l})
		x.C.Net.AddRule(&simnet.Rule{Name: "deny-real-votes", Drop: true, Match: func(m *mon.Msg, reply bool) bool { return !reply && m.Kind == "RV" && !m.Prevote }})
		x.WaitFor(3*time.Second, func() bool { s := x.C.Node(target).Sample(); return s != nil && s.State == "candidate" })
	case "shutdown":
		target = fol[0]
		x.C.Node(target).R().Stop()
	case "deposed-leader":
		x.C.Net.Partition([]string{l}, fol)
		x.C.WaitLeaderAmong(fol, 3*time.Second)
	}
	if s := x.C.Node(target).Sample(); s != nil {
		x.Cover("api-role-" + s.State)
	} else {
		x.Cover("api-role-shutdown")
	}
	x.Step("role %s on %s", role, target)
	nd := x.C.Node(target).R()
	var wg sync.WaitGroup
	// concurrent cluster activity
	wg.Add(1)
	go func() {
		defer wg.Done()
		for i := 0; i < 10; i++ {
			if cur := x.C.Leader(); cur != "" {
				x.C.Submit(5, nextOp("bg"), "W", cur, 100*time.Millisecond, 0)
			}
			time.Sleep(5 * time.Millisecond)
		}
	}()
	a.useNode(target, nd, 10+r.Intn(25), target, false)
	wg.Wait()
	x.C.Net.Heal()
	// clause (4): a membership change that commits while its submitter stays leader resolves its future ok
	if len(x.M.Fatals()) == 0 && r.Intn(2) == 0 {
		a.membershipClause()
	}
	x.NT("api-cluster")
	x.Res.Steps = append(x.Res.Steps, tail(a.calls, 40)...)
}

func (a *apiCtx) membershipClause() {
	x := a.x
	if !x.Quiesce(10 * time.Second) {
		return
	}
	l := x.C.Leader()
	if l == "" {
		return
	}
	x.Writes(2, l, 1, time.Second)
	if x.C.Node("nvx") == nil {
		if n, err := x.C.AddNode("nvx"); err == nil {
			n.Start()
		}
	}
	term0 := x.C.Node(l).R().Status().Term
	to := 3 * time.Second
	r := x.R
	// the change: add a non-voter, remove a follower, or the leader removes itself (it commits the entry as leader
	// and steps down when it applies it)
	kind := r.Intn(3)
	server, add, desc := "nvx", true, "AddServer(nvx, non-voter)"
	if kind > 0 {
		st := x.C.Node(l).R().VerifState()
		voters := 0
		var followers []string
		if st.Configuration != nil {
			for id := range st.Configuration.Members {
				if st.Configuration.IsVoter[id] {
					voters++
					if id != l {
						followers = append(followers, id)
					}
				}
			}
		}
		sort.Strings(followers)
		switch {
		case voters < 3:
			kind = 0
		case kind == 1:
			server, add, desc = followers[r.Intn(len(followers))], false, "RemoveServer(follower)"
		default:
			server, add, desc = l, false, "RemoveServer(the leader itself)"
		}
	}
	// the clause needs a clean starting point: no other change pending at the leader, and the server's membership
	// in the committed configuration must actually be changed by the call
	st0 := x.C.Node(l).R().VerifState()
	if st0.CommittedConfiguration == nil || st0.Configuration == nil || st0.CommittedConfiguration.Index != st0.Configuration.Index {
		x.count("api.membership_clause_skipped_pending", 1)
		return
	}
	if _, was := st0.CommittedConfiguration.Members[server]; was == add {
		x.count("api.membership_clause_skipped_noop", 1)
		return
	}
	// recorded as a membership operation, so that the majority oracles follow the configurations in force
	mop := &mon.Op{Client: 98, ID: nextOp("clause"), Type: map[bool]string{true: "ADD", false: "REM"}[add], Target: l, Server: server}
	x.M.Emit(mon.Event{Kind: mon.KCall, Op: mop})
	var fut raft.Future[raft.Configuration]
	if add {
		fut = x.C.Node(l).R().AddServer(server, server, false, to)
	} else {
		fut = x.C.Node(l).R().RemoveServer(server, to)
	}
	t0 := time.Now()
	res := fut.Await() // awaited without retrying
	mret := *mop
	mret.Outcome = "unknown"
	x.M.Emit(mon.Event{Kind: mon.KRet, Op: &mret})
	st := x.C.Node(l).R().VerifState()
	// committed under this leader: the node itself knows the change as committed and is still in the term in which
	// it submitted it (only the leader of a term commits in that term; a self-removed leader steps down without
	// changing the term)
	committed := false
	if st.CommittedConfiguration != nil {
		_, member := st.CommittedConfiguration.Members[server]
		committed = member == add
	}
	sameTerm := st.Term == term0 && (st.State == raft.Leader || server == l)
	x.count("api.membership_clause_checks", 1)
	x.Cover("membership-clause:" + desc)
	if res.Error() != nil && committed && sameTerm {
		a.viol("membership-future-unresolved", "%s of %s was committed by leader %s (committed configuration index %d, still term %d) but its future returned %q after %v", desc, server, l, st.CommittedConfiguration.Index, term0, res.Error(), time.Since(t0).Round(time.Millisecond))
	}
	if res.Error() == nil {
		cfg := res.Success()
		if _, ok := cfg.Members[server]; ok != add {
			a.viol("membership-future-wrong-configuration", "%s of %s: the future succeeded with a configuration that does not reflect the change: %s", desc, server, cfg.String())
		}
	}
}

func init() {
	Registry["api.single"] = scenAPISingle
	Registry["api.cluster"] = scenAPICluster
}

// scenAPIStopStorm: a node that campaigns all the time (its peers do not exist) is stopped and started over
// and over: Stop must be safe against the node's own in-flight background goroutines.
func scenAPIStopStorm(x *Ctx) {
	x.SkipOffline = true
	r := x.R
	a := &apiCtx{x: x, r: r, hangBound: 20 * time.Second}
	dir := filepath.Join(x.Root, "storm")
	m := mon.New()
	inc := &shim.Inc{M: m, Net: x.C.Net, Node: "s", N: 1, Dir: dir}
	fsm := shim.NewFSM(inc, shim.FSMOpts{})
	ep := x.C.Net.NewEndpoint("s1", 1)
	nd, err := raft.NewRaft("s1", "s1", fsm, dir, raft.WithTransport(ep), raft.WithElectionTimeout(time.Millisecond), raft.WithHeartbeatInterval(time.Millisecond), raft.WithLogLevel(logging.Fatal))
	if err != nil {
		x.Inconclusive("NewRaft: %v", err)
		return
	}
	peers := map[string]string{"s1": "s1", "ghost1": "ghost1"}
	if r.Intn(2) == 0 {
		peers["ghost2"] = "ghost2"
	}
	nd.Bootstrap(peers)
	// CPU hogs make freshly spawned library goroutines wait for a processor, so that they run late
	hogStop := make(chan struct{})
	for h := 0; h < x.P.Int("hogs", 0); h++ {
		go func() {
			n := 0
			for {
				select {
				case <-hogStop:
					return
				default:
					n++
				}
			}
		}()
	}
	defer close(hogStop)
	for i := 0; i < x.P.Int("rounds", 150); i++ {
		if i == 0 || r.Intn(2) == 0 {
			if !a.call("Start", func() { nd.Start() }) {
				break
			}
		} else {
			if !a.call("Restart", func() { nd.Restart() }) {
				break
			}
		}
		time.Sleep(time.Duration(r.Intn(6000)) * time.Microsecond)
		if r.Intn(3) == 0 {
			nd.SubmitOperation([]byte("x"), raft.Replicated, time.Millisecond)
			_ = nd.Status()
		}
		if !a.call("Stop", func() { nd.Stop() }) {
			break
		}
	}
	x.NT("api-stop-storm")
	x.Res.Steps = append(x.Res.Steps, fmt.Sprintf("%d start/stop rounds", len(a.calls)/2))
}

func init() { Registry["api.stopstorm"] = scenAPIStopStorm }
