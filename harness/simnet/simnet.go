// Package simnet is an in-memory raft.Transport that the harness owns: every
// request and reply passes through it, is recorded, and can be dropped, delayed,
// held on a gate, duplicated or cut by a partition.
package simnet

import (
	"errors"
	"math/rand"
	"sync"
	"sync/atomic"
	"time"

	"github.com/jmsadair/raft"

	"verif/harness/gid"
	"verif/harness/mon"
)

var ErrNet = errors.New("simnet: message lost")

// Link is the static fault state of one directed link.
type Link struct {
	Block      bool
	LossPct    int // request loss, percent
	RepLossPct int // reply loss, percent
	DelayMaxUs int // uniform random delay per direction, microseconds
	DupPct     int
}

// Gate holds messages until released.
type Gate struct {
	ch   chan struct{}
	once sync.Once
	Held int32
}

func NewGate() *Gate           { return &Gate{ch: make(chan struct{})} }
func (g *Gate) Release()       { g.once.Do(func() { close(g.ch) }) }
func (g *Gate) HeldCount() int { return int(atomic.LoadInt32(&g.Held)) }

// Rule is a dynamic fault rule. Match is evaluated under the net mutex on the
// request (reply=false) and again on the reply (reply=true, reply fields filled).
type Rule struct {
	Name    string
	Match   func(m *mon.Msg, reply bool) bool
	Drop    bool
	Delay   time.Duration
	Gate    *Gate
	MaxHits int // 0 = unlimited
	Hits    int
}

type action struct {
	drop  bool
	delay time.Duration
	gate  *Gate
	dup   bool
}

// Net is the simulated network.
type Net struct {
	M     *mon.Monitor
	mu    sync.Mutex
	eps   map[string]*Endpoint
	links map[[2]string]*Link
	rules []*Rule
	rng   *rand.Rand
	next  uint64
	done  chan struct{}
	codec raft.Transport

	// measured
	MaxRTT    int64 // nanoseconds, over delivered exchanges
	Exchanges int64
}

func New(m *mon.Monitor, seed int64) *Net {
	codec, err := raft.NewTransport("127.0.0.1:0")
	if err != nil {
		panic(err)
	}
	return &Net{M: m, eps: map[string]*Endpoint{}, links: map[[2]string]*Link{}, rng: rand.New(rand.NewSource(seed)), done: make(chan struct{}), codec: codec}
}

func (n *Net) Codec() raft.Transport { return n.codec }

// Close releases everything that is held.
func (n *Net) Close() {
	select {
	case <-n.done:
	default:
		close(n.done)
	}
}

func (n *Net) link(from, to string) *Link {
	k := [2]string{from, to}
	l := n.links[k]
	if l == nil {
		l = &Link{}
		n.links[k] = l
	}
	return l
}

// SetLink mutates the fault state of one directed link.
func (n *Net) SetLink(from, to string, f func(l *Link)) {
	n.mu.Lock()
	defer n.mu.Unlock()
	f(n.link(from, to))
}

// Heal removes every static fault and every rule.
func (n *Net) Heal() {
	n.mu.Lock()
	defer n.mu.Unlock()
	n.links = map[[2]string]*Link{}
	for _, r := range n.rules {
		if r.Gate != nil {
			r.Gate.Release()
		}
	}
	n.rules = nil
}

// ResetRTT starts a new round-trip measurement window.
func (n *Net) ResetRTT() { atomic.StoreInt64(&n.MaxRTT, 0) }

// ClearLinks removes the static link faults (partitions, loss, delay) but keeps the rules and their gates.
func (n *Net) ClearLinks() {
	n.mu.Lock()
	defer n.mu.Unlock()
	n.links = map[[2]string]*Link{}
}

// Partition blocks all links between the two groups (both directions).
func (n *Net) Partition(a, b []string) {
	n.mu.Lock()
	defer n.mu.Unlock()
	for _, x := range a {
		for _, y := range b {
			n.link(x, y).Block = true
			n.link(y, x).Block = true
		}
	}
}

// CutOneWay blocks from -> to only.
func (n *Net) CutOneWay(from, to []string) {
	n.mu.Lock()
	defer n.mu.Unlock()
	for _, x := range from {
		for _, y := range to {
			n.link(x, y).Block = true
		}
	}
}

func (n *Net) AddRule(r *Rule) *Rule {
	n.mu.Lock()
	defer n.mu.Unlock()
	n.rules = append(n.rules, r)
	return r
}

func (n *Net) RemoveRule(r *Rule) {
	n.mu.Lock()
	defer n.mu.Unlock()
	for i, x := range n.rules {
		if x == r {
			n.rules = append(n.rules[:i], n.rules[i+1:]...)
			break
		}
	}
	if r.Gate != nil {
		r.Gate.Release()
	}
}

func (n *Net) decide(m *mon.Msg, reply bool) action {
	n.mu.Lock()
	defer n.mu.Unlock()
	var a action
	from, to := m.From, m.To
	l := n.link(from, to)
	if reply {
		l = n.link(to, from)
	}
	if l.Block {
		a.drop = true
		return a
	}
	loss := l.LossPct
	if reply {
		// reply travels on the reverse link: its request-loss setting applies, plus the forward link's reply loss
		loss = n.link(from, to).RepLossPct
		if l.LossPct > loss {
			loss = l.LossPct
		}
	}
	if loss > 0 && n.rng.Intn(100) < loss {
		a.drop = true
		return a
	}
	if l.DelayMaxUs > 0 {
		a.delay = time.Duration(n.rng.Intn(l.DelayMaxUs+1)) * time.Microsecond
	}
	if !reply && l.DupPct > 0 && n.rng.Intn(100) < l.DupPct {
		a.dup = true
	}
	for _, r := range n.rules {
		if r.MaxHits > 0 && r.Hits >= r.MaxHits {
			continue
		}
		if r.Match(m, reply) {
			r.Hits++
			if r.Drop {
				a.drop = true
			}
			if r.Delay > a.delay {
				a.delay = r.Delay
			}
			if r.Gate != nil {
				a.gate = r.Gate
			}
		}
	}
	return a
}

func (n *Net) lookup(addr string) *Endpoint {
	n.mu.Lock()
	defer n.mu.Unlock()
	return n.eps[addr]
}

// wait applies delay and gate; returns false if the net was closed meanwhile.
func (n *Net) wait(a action) bool {
	if a.delay > 0 {
		t := time.NewTimer(a.delay)
		select {
		case <-t.C:
		case <-n.done:
			t.Stop()
			return false
		}
	}
	if a.gate != nil {
		atomic.AddInt32(&a.gate.Held, 1)
		select {
		case <-a.gate.ch:
		case <-n.done:
			return false
		}
	}
	return true
}

// Endpoint is the transport of one node incarnation.
type Endpoint struct {
	net  *Net
	ID   string
	Inc  int
	addr string

	hmu sync.Mutex
	ae  func(*raft.AppendEntriesRequest, *raft.AppendEntriesResponse) error
	rv  func(*raft.RequestVoteRequest, *raft.RequestVoteResponse) error
	is  func(*raft.InstallSnapshotRequest, *raft.InstallSnapshotResponse) error

	dead    atomic.Bool
	running atomic.Bool

	// PostHandler is called after every handler invocation on this endpoint (sampling hook).
	PostHandler func(msgID uint64)
}

func (n *Net) NewEndpoint(id string, inc int) *Endpoint {
	return &Endpoint{net: n, ID: id, Inc: inc, addr: id}
}

// Kill marks the incarnation dead: nothing is sent, delivered or returned any more.
func (e *Endpoint) Kill()      { e.dead.Store(true) }
func (e *Endpoint) Dead() bool { return e.dead.Load() }

func (e *Endpoint) Run() error {
	if e.dead.Load() {
		return nil
	}
	e.running.Store(true)
	e.net.mu.Lock()
	e.net.eps[e.addr] = e
	e.net.mu.Unlock()
	return nil
}

func (e *Endpoint) Shutdown() error {
	e.running.Store(false)
	e.net.mu.Lock()
	if e.net.eps[e.addr] == e {
		delete(e.net.eps, e.addr)
	}
	e.net.mu.Unlock()
	return nil
}

// The handlers are (re-)registered by every Start of the node, possibly while a request that passed the
// "running" test a moment ago is being delivered: registration and look-up are synchronised here.
func (e *Endpoint) RegisterAppendEntriesHandler(h func(*raft.AppendEntriesRequest, *raft.AppendEntriesResponse) error) {
	e.hmu.Lock()
	e.ae = h
	e.hmu.Unlock()
}
func (e *Endpoint) RegisterRequestVoteHandler(h func(*raft.RequestVoteRequest, *raft.RequestVoteResponse) error) {
	e.hmu.Lock()
	e.rv = h
	e.hmu.Unlock()
}
func (e *Endpoint) RegsiterInstallSnapshotHandler(h func(*raft.InstallSnapshotRequest, *raft.InstallSnapshotResponse) error) {
	e.hmu.Lock()
	e.is = h
	e.hmu.Unlock()
}
func (e *Endpoint) aeHandler() func(*raft.AppendEntriesRequest, *raft.AppendEntriesResponse) error {
	e.hmu.Lock()
	defer e.hmu.Unlock()
	return e.ae
}
func (e *Endpoint) rvHandler() func(*raft.RequestVoteRequest, *raft.RequestVoteResponse) error {
	e.hmu.Lock()
	defer e.hmu.Unlock()
	return e.rv
}
func (e *Endpoint) isHandler() func(*raft.InstallSnapshotRequest, *raft.InstallSnapshotResponse) error {
	e.hmu.Lock()
	defer e.hmu.Unlock()
	return e.is
}
func (e *Endpoint) EncodeConfiguration(c *raft.Configuration) ([]byte, error) {
	return e.net.codec.EncodeConfiguration(c)
}
func (e *Endpoint) DecodeConfiguration(d []byte) (raft.Configuration, error) {
	return e.net.codec.DecodeConfiguration(d)
}
func (e *Endpoint) Address() string { return e.addr }

// DecodeCfg decodes configuration bytes into the monitor's representation.
func (n *Net) DecodeCfg(data []byte) *mon.Cfg {
	if len(data) == 0 {
		return nil
	}
	c, err := n.codec.DecodeConfiguration(data)
	if err != nil {
		return nil
	}
	return CfgOf(&c)
}

func CfgOf(c *raft.Configuration) *mon.Cfg {
	if c == nil {
		return nil
	}
	out := &mon.Cfg{Index: c.Index, Members: map[string]bool{}}
	for id := range c.Members {
		out.Members[id] = c.IsVoter[id]
	}
	return out
}

// EntryOf copies the wire-visible fields of a log entry.
func (n *Net) EntryOf(e *raft.LogEntry) mon.Entry {
	me := mon.Entry{Index: e.Index, Term: e.Term, Type: uint32(e.EntryType), Hash: mon.HashBytes(e.Data), Len: len(e.Data)}
	if e.EntryType == raft.ConfigurationEntry {
		me.Cfg = n.DecodeCfg(e.Data)
		if me.Cfg != nil {
			// protobuf map fields serialise in random order: identify a configuration entry by its
			// decoded content, not by its bytes
			me.Hash = mon.HashBytes([]byte(me.Cfg.Canon()))
		}
	}
	return me
}

func copyEntries(in []*raft.LogEntry) []*raft.LogEntry {
	out := make([]*raft.LogEntry, len(in))
	for i, e := range in {
		// exactly the fields the bundled wire format carries
		out[i] = &raft.LogEntry{Index: e.Index, Term: e.Term, Data: append([]byte(nil), e.Data...), EntryType: e.EntryType}
	}
	return out
}

type exchange struct {
	m       mon.Msg
	deliver func(dst *Endpoint) (string, bool) // runs the handler, fills reply fields of m; returns error string
}

// run performs one request/reply exchange with all fault handling. call invokes
// the destination handler and fills the reply fields of msg.
func (e *Endpoint) run(msg *mon.Msg, call func(dst *Endpoint, msg *mon.Msg) error) error {
	n := e.net
	if e.dead.Load() || !e.running.Load() {
		return ErrNet
	}
	msg.ID = atomic.AddUint64(&n.next, 1)
	msg.From, msg.FromInc = e.ID, e.Inc
	start := time.Now()
	n.M.Emit(mon.Event{Kind: mon.KSend, Node: e.ID, Inc: e.Inc, Msg: cp(msg)})
	a := n.decide(msg, false)
	gated := a.gate != nil
	if a.drop {
		n.M.Emit(mon.Event{Kind: mon.KDrop, Node: e.ID, Str: "req", Msg: &mon.Msg{ID: msg.ID}})
		return ErrNet
	}
	if a.dup {
		d := *msg
		d.Dup = true
		go func() {
			time.Sleep(time.Duration(500+n.rand(3000)) * time.Microsecond)
			d.ID = atomic.AddUint64(&n.next, 1)
			n.M.Emit(mon.Event{Kind: mon.KSend, Node: e.ID, Inc: e.Inc, Msg: cp(&d)})
			dst := n.lookup(d.To)
			if dst == nil || dst.dead.Load() || !dst.running.Load() || e.dead.Load() {
				return
			}
			e.deliver(dst, &d, call)
		}()
	}
	if !n.wait(a) {
		return ErrNet
	}
	if e.dead.Load() {
		return ErrNet
	}
	dst := n.lookup(msg.To)
	if dst == nil || dst.dead.Load() || !dst.running.Load() {
		n.M.Emit(mon.Event{Kind: mon.KDrop, Node: e.ID, Str: "down", Msg: &mon.Msg{ID: msg.ID}})
		return ErrNet
	}
	if err := e.deliver(dst, msg, call); err != nil {
		return err
	}
	a = n.decide(msg, true)
	gated = gated || a.gate != nil
	if a.drop {
		n.M.Emit(mon.Event{Kind: mon.KDrop, Node: e.ID, Str: "rep", Msg: &mon.Msg{ID: msg.ID}})
		return ErrNet
	}
	if !n.wait(a) {
		return ErrNet
	}
	if e.dead.Load() || !e.running.Load() {
		return ErrNet
	}
	rtt := int64(time.Since(start))
	if gated {
		rtt = 0 // held on purpose by the scenario: not a measurement of network delay
	}
	for {
		old := atomic.LoadInt64(&n.MaxRTT)
		if rtt <= old || atomic.CompareAndSwapInt64(&n.MaxRTT, old, rtt) {
			break
		}
	}
	atomic.AddInt64(&n.Exchanges, 1)
	n.M.Emit(mon.Event{Kind: mon.KReplied, Node: e.ID, Inc: e.Inc, Msg: &mon.Msg{ID: msg.ID, Kind: msg.Kind, From: msg.From, To: msg.To, Term: msg.Term, RTerm: msg.RTerm, ROK: msg.ROK}})
	return nil
}

func (n *Net) rand(k int) int {
	n.mu.Lock()
	defer n.mu.Unlock()
	return n.rng.Intn(k)
}

func cp(m *mon.Msg) *mon.Msg { c := *m; return &c }

func (e *Endpoint) deliver(dst *Endpoint, msg *mon.Msg, call func(dst *Endpoint, msg *mon.Msg) error) error {
	n := e.net
	msg.ToInc = dst.Inc
	n.M.Emit(mon.Event{Kind: mon.KDeliver, Node: dst.ID, Inc: dst.Inc, Msg: cp(msg)})
	unbind := gid.Set(msg.ID)
	err := call(dst, msg)
	unbind()
	if dst.dead.Load() {
		// the receiver died while handling: a dead process answers nobody
		return ErrNet
	}
	if err != nil {
		msg.RErr = err.Error()
	}
	n.M.Emit(mon.Event{Kind: mon.KReply, Node: dst.ID, Inc: dst.Inc, Msg: &mon.Msg{ID: msg.ID, Kind: msg.Kind, From: msg.From, To: msg.To, Term: msg.Term, RTerm: msg.RTerm, ROK: msg.ROK, RIndex: msg.RIndex, RWritten: msg.RWritten, RErr: msg.RErr}})
	if dst.PostHandler != nil {
		dst.PostHandler(msg.ID)
	}
	if err != nil {
		return err
	}
	return nil
}

func (e *Endpoint) SendAppendEntries(address string, req raft.AppendEntriesRequest) (raft.AppendEntriesResponse, error) {
	msg := &mon.Msg{Kind: "AE", To: address, Term: req.Term, Leader: req.LeaderID, Prev: req.PrevLogIndex, PrevTerm: req.PrevLogTerm, Commit: req.LeaderCommit}
	for _, en := range req.Entries {
		msg.Ents = append(msg.Ents, e.net.EntryOf(en))
	}
	var resp raft.AppendEntriesResponse
	err := e.run(msg, func(dst *Endpoint, m *mon.Msg) error {
		r := raft.AppendEntriesRequest{LeaderID: req.LeaderID, Term: req.Term, LeaderCommit: req.LeaderCommit, PrevLogIndex: req.PrevLogIndex, PrevLogTerm: req.PrevLogTerm, Entries: copyEntries(req.Entries)}
		var rp raft.AppendEntriesResponse
		h := dst.aeHandler()
		if h == nil {
			return ErrNet
		}
		if err := h(&r, &rp); err != nil {
			return err
		}
		m.RTerm, m.ROK, m.RIndex = rp.Term, rp.Success, rp.Index
		if !m.Dup {
			resp = rp
		}
		return nil
	})
	if err != nil {
		return raft.AppendEntriesResponse{}, err
	}
	return resp, nil
}

func (e *Endpoint) SendRequestVote(address string, req raft.RequestVoteRequest) (raft.RequestVoteResponse, error) {
	msg := &mon.Msg{Kind: "RV", To: address, Term: req.Term, Leader: req.CandidateID, LastIdx: req.LastLogIndex, LastTerm: req.LastLogTerm, Prevote: req.Prevote}
	var resp raft.RequestVoteResponse
	err := e.run(msg, func(dst *Endpoint, m *mon.Msg) error {
		r := req
		var rp raft.RequestVoteResponse
		h := dst.rvHandler()
		if h == nil {
			return ErrNet
		}
		if err := h(&r, &rp); err != nil {
			return err
		}
		m.RTerm, m.ROK = rp.Term, rp.VoteGranted
		if !m.Dup {
			resp = rp
		}
		return nil
	})
	if err != nil {
		return raft.RequestVoteResponse{}, err
	}
	return resp, nil
}

func (e *Endpoint) SendInstallSnapshot(address string, req raft.InstallSnapshotRequest) (raft.InstallSnapshotResponse, error) {
	msg := &mon.Msg{Kind: "IS", To: address, Term: req.Term, Leader: req.LeaderID, LastIdx: req.LastIncludedIndex, LastTerm: req.LastIncludedTerm, Off: req.Offset, NBytes: len(req.Bytes), BHash: mon.HashBytes(req.Bytes), Done: req.Done, SnapCfg: e.net.DecodeCfg(req.Configuration)}
	var resp raft.InstallSnapshotResponse
	err := e.run(msg, func(dst *Endpoint, m *mon.Msg) error {
		r := req
		r.Bytes = append([]byte(nil), req.Bytes...)
		r.Configuration = append([]byte(nil), req.Configuration...)
		var rp raft.InstallSnapshotResponse
		h := dst.isHandler()
		if h == nil {
			return ErrNet
		}
		if err := h(&r, &rp); err != nil {
			return err
		}
		m.RTerm, m.RWritten = rp.Term, rp.BytesWritten
		if !m.Dup {
			resp = rp
		}
		return nil
	})
	if err != nil {
		return raft.InstallSnapshotResponse{}, err
	}
	return resp, nil
}
