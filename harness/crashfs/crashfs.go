// Package crashfs parses an strace log of a storage workload, replays its
// mutating syscalls onto an empty directory, and synthesises the directory image
// a process death at any syscall boundary (or any byte prefix of a write) would
// have left.
package crashfs

import (
	"bufio"
	"encoding/hex"
	"fmt"
	"os"
	"path/filepath"
	"strconv"
	"strings"
)

// Call is one completed syscall.
type Call struct {
	Line int
	PID  string
	Name string
	Args []string
	Ret  int64
	Err  string
	Raw  string
}

// Parse reads an strace -f -xx log and returns completed calls in completion order.
func Parse(path string) ([]Call, error) {
	f, err := os.Open(path)
	if err != nil {
		return nil, err
	}
	defer f.Close()
	sc := bufio.NewScanner(f)
	sc.Buffer(make([]byte, 1<<20), 1<<30)
	pending := map[string]string{}
	var out []Call
	ln := 0
	for sc.Scan() {
		ln++
		line := sc.Text()
		sp := strings.IndexByte(line, ' ')
		if sp < 0 {
			continue
		}
		pid, rest := line[:sp], strings.TrimLeft(line[sp:], " ")
		if strings.HasPrefix(rest, "+++") || strings.HasPrefix(rest, "---") {
			continue
		}
		if strings.HasSuffix(rest, "<unfinished ...>") {
			pending[pid] = strings.TrimSuffix(rest, "<unfinished ...>")
			continue
		}
		if strings.HasPrefix(rest, "<... ") {
			i := strings.Index(rest, "resumed>")
			if i < 0 {
				continue
			}
			head, ok := pending[pid]
			if !ok {
				continue
			}
			delete(pending, pid)
			rest = head + rest[i+len("resumed>"):]
		}
		c, ok := parseCall(rest)
		if !ok {
			continue
		}
		c.Line, c.PID, c.Raw = ln, pid, ""
		out = append(out, c)
	}
	return out, sc.Err()
}

func parseCall(s string) (Call, bool) {
	op := strings.IndexByte(s, '(')
	if op <= 0 {
		return Call{}, false
	}
	name := s[:op]
	// find " = " after the closing paren at depth 0
	depth, inq := 0, false
	end := -1
	for i := op; i < len(s); i++ {
		ch := s[i]
		if inq {
			if ch == '\\' {
				i++
			} else if ch == '"' {
				inq = false
			}
			continue
		}
		switch ch {
		case '"':
			inq = true
		case '(', '[', '{':
			depth++
		case ')', ']', '}':
			depth--
			if depth == 0 {
				end = i
			}
		}
		if end >= 0 {
			break
		}
	}
	if end < 0 {
		return Call{}, false
	}
	args := splitArgs(s[op+1 : end])
	rest := strings.TrimSpace(s[end+1:])
	if !strings.HasPrefix(rest, "=") {
		return Call{}, false
	}
	rest = strings.TrimSpace(rest[1:])
	fields := strings.Fields(rest)
	if len(fields) == 0 {
		return Call{}, false
	}
	c := Call{Name: name, Args: args}
	if fields[0] == "?" {
		c.Ret = -1
		c.Err = "?"
		return c, true
	}
	v, err := strconv.ParseInt(fields[0], 0, 64)
	if err != nil {
		return Call{}, false
	}
	c.Ret = v
	if v < 0 && len(fields) > 1 {
		c.Err = fields[1]
	}
	return c, true
}

func splitArgs(s string) []string {
	var out []string
	depth, inq := 0, false
	start := 0
	for i := 0; i < len(s); i++ {
		ch := s[i]
		if inq {
			if ch == '\\' {
				i++
			} else if ch == '"' {
				inq = false
			}
			continue
		}
		switch ch {
		case '"':
			inq = true
		case '(', '[', '{':
			depth++
		case ')', ']', '}':
			depth--
		case ',':
			if depth == 0 {
				out = append(out, strings.TrimSpace(s[start:i]))
				start = i + 1
			}
		}
	}
	if strings.TrimSpace(s[start:]) != "" {
		out = append(out, strings.TrimSpace(s[start:]))
	}
	return out
}

// Str decodes an strace string argument ("\x41\x42"... possibly with trailing "...").
func Str(arg string) (string, bool) {
	arg = strings.TrimSpace(arg)
	trunc := strings.HasSuffix(arg, "...")
	arg = strings.TrimSuffix(arg, "...")
	if len(arg) < 2 || arg[0] != '"' || arg[len(arg)-1] != '"' {
		return "", false
	}
	body := arg[1 : len(arg)-1]
	var b []byte
	for i := 0; i < len(body); {
		if body[i] == '\\' && i+3 < len(body)+1 && i+1 < len(body) && body[i+1] == 'x' {
			v, err := hex.DecodeString(body[i+2 : i+4])
			if err != nil {
				return "", false
			}
			b = append(b, v[0])
			i += 4
		} else {
			b = append(b, body[i])
			i++
		}
	}
	return string(b), !trunc
}

// Op is one mutating step of the replay (a syscall, or a marker).
type Op struct {
	Kind   string // write, trunc, rename, unlink, rmdir, mkdir, create, marker, fsync, close
	Path   string // relative to the data dir
	Path2  string
	Off    int64
	Data   []byte
	Len    int64
	Marker string
	Trunc  bool // create with O_TRUNC on an existing file
	FD     int64
	Line   int
}

type fdState struct {
	path   string
	off    int64
	app    bool
	marker bool
	inside bool // path is inside the data dir
}

// Extract turns the calls into the sequence of mutating ops on files under root; markerPath names
// the marker file. Unknown mutating syscalls are reported in unknown.
func Extract(calls []Call, root, markerPath string) (ops []Op, unknown []string) {
	fds := map[int64]*fdState{}
	root = filepath.Clean(root)
	rel := func(p string) (string, bool) {
		p = filepath.Clean(p)
		if p == root {
			return ".", true
		}
		if strings.HasPrefix(p, root+"/") {
			return p[len(root)+1:], true
		}
		return p, false
	}
	resolve := func(dirfd string, p string) string {
		if filepath.IsAbs(p) {
			return p
		}
		if dirfd == "AT_FDCWD" {
			wd, _ := os.Getwd()
			return filepath.Join(wd, p)
		}
		if n, err := strconv.ParseInt(dirfd, 10, 64); err == nil {
			if st := fds[n]; st != nil {
				return filepath.Join(st.path, p)
			}
		}
		return p
	}
	known := map[string]bool{"read": true, "pread64": true, "fcntl": true, "dup": true, "dup2": true, "dup3": true, "getdents64": true, "newfstatat": true, "fstat": true}
	for _, c := range calls {
		if c.Ret < 0 {
			continue
		}
		switch c.Name {
		case "openat", "open", "creat":
			var dirfd, parg, flags string
			switch c.Name {
			case "openat":
				if len(c.Args) < 3 {
					continue
				}
				dirfd, parg, flags = c.Args[0], c.Args[1], c.Args[2]
			case "open":
				if len(c.Args) < 2 {
					continue
				}
				dirfd, parg, flags = "AT_FDCWD", c.Args[0], c.Args[1]
			case "creat":
				dirfd, parg, flags = "AT_FDCWD", c.Args[0], "O_CREAT|O_WRONLY|O_TRUNC"
			}
			p, ok := Str(parg)
			if !ok {
				continue
			}
			abs := resolve(dirfd, p)
			st := &fdState{path: abs, app: strings.Contains(flags, "O_APPEND")}
			if filepath.Clean(abs) == filepath.Clean(markerPath) {
				st.marker = true
			}
			r, inside := rel(abs)
			st.inside = inside
			fds[c.Ret] = st
			if inside && (strings.Contains(flags, "O_CREAT") || strings.Contains(flags, "O_TRUNC")) && !strings.Contains(flags, "O_DIRECTORY") {
				ops = append(ops, Op{Kind: "create", Path: r, Trunc: strings.Contains(flags, "O_TRUNC"), Line: c.Line, FD: c.Ret})
			}
		case "close":
			n, _ := strconv.ParseInt(c.Args[0], 10, 64)
			if st := fds[n]; st != nil && st.inside {
				r, _ := rel(st.path)
				ops = append(ops, Op{Kind: "close", Path: r, FD: n, Line: c.Line})
			}
			delete(fds, n)
		case "write", "pwrite64":
			n, _ := strconv.ParseInt(c.Args[0], 10, 64)
			st := fds[n]
			if st == nil {
				continue
			}
			data, full := Str(c.Args[1])
			if st.marker {
				ops = append(ops, Op{Kind: "marker", Marker: strings.TrimSpace(data), Line: c.Line})
				continue
			}
			if !st.inside {
				continue
			}
			if !full || int64(len(data)) < c.Ret {
				unknown = append(unknown, fmt.Sprintf("line %d: write payload truncated in trace", c.Line))
				continue
			}
			r, _ := rel(st.path)
			off := st.off
			if c.Name == "pwrite64" {
				off, _ = strconv.ParseInt(c.Args[3], 10, 64)
			} else if st.app {
				off = -1 // append
			}
			ops = append(ops, Op{Kind: "write", Path: r, Off: off, Data: []byte(data[:c.Ret]), Line: c.Line, FD: n})
			if c.Name == "write" && off >= 0 {
				st.off += c.Ret
			}
		case "read":
			n, _ := strconv.ParseInt(c.Args[0], 10, 64)
			if st := fds[n]; st != nil {
				st.off += c.Ret
			}
		case "lseek":
			n, _ := strconv.ParseInt(c.Args[0], 10, 64)
			if st := fds[n]; st != nil {
				st.off = c.Ret
			}
		case "ftruncate":
			n, _ := strconv.ParseInt(c.Args[0], 10, 64)
			if st := fds[n]; st != nil && st.inside {
				l, _ := strconv.ParseInt(c.Args[1], 10, 64)
				r, _ := rel(st.path)
				ops = append(ops, Op{Kind: "trunc", Path: r, Len: l, Line: c.Line, FD: n})
			}
		case "fsync", "fdatasync":
			n, _ := strconv.ParseInt(c.Args[0], 10, 64)
			if st := fds[n]; st != nil && st.inside {
				r, _ := rel(st.path)
				ops = append(ops, Op{Kind: "fsync", Path: r, Line: c.Line, FD: n})
			}
		case "rename", "renameat", "renameat2":
			var a, b string
			if c.Name == "rename" {
				pa, _ := Str(c.Args[0])
				pb, _ := Str(c.Args[1])
				a, b = resolve("AT_FDCWD", pa), resolve("AT_FDCWD", pb)
			} else {
				pa, _ := Str(c.Args[1])
				pb, _ := Str(c.Args[3])
				a, b = resolve(c.Args[0], pa), resolve(c.Args[2], pb)
			}
			ra, ia := rel(a)
			rb, ib := rel(b)
			if ia && ib {
				ops = append(ops, Op{Kind: "rename", Path: ra, Path2: rb, Line: c.Line})
				// open fds follow the file
				for _, st := range fds {
					if filepath.Clean(st.path) == filepath.Clean(a) {
						st.path = b
					} else if strings.HasPrefix(filepath.Clean(st.path), filepath.Clean(a)+"/") {
						st.path = filepath.Join(b, st.path[len(filepath.Clean(a)):])
					}
				}
			} else if ia || ib {
				unknown = append(unknown, fmt.Sprintf("line %d: rename across the data dir boundary", c.Line))
			}
		case "unlink", "unlinkat", "rmdir":
			var p string
			rm := c.Name == "rmdir"
			if c.Name == "unlinkat" {
				pp, _ := Str(c.Args[1])
				p = resolve(c.Args[0], pp)
				rm = strings.Contains(c.Args[2], "AT_REMOVEDIR")
			} else {
				pp, _ := Str(c.Args[0])
				p = resolve("AT_FDCWD", pp)
			}
			if r, in := rel(p); in {
				k := "unlink"
				if rm {
					k = "rmdir"
				}
				ops = append(ops, Op{Kind: k, Path: r, Line: c.Line})
			}
		case "mkdir", "mkdirat":
			var p string
			if c.Name == "mkdirat" {
				pp, _ := Str(c.Args[1])
				p = resolve(c.Args[0], pp)
			} else {
				pp, _ := Str(c.Args[0])
				p = resolve("AT_FDCWD", pp)
			}
			if r, in := rel(p); in && r != "." {
				ops = append(ops, Op{Kind: "mkdir", Path: r, Line: c.Line})
			}
		case "truncate", "link", "linkat", "symlink", "symlinkat", "writev", "pwritev", "pwritev2", "fallocate", "copy_file_range", "sendfile":
			unknown = append(unknown, fmt.Sprintf("line %d: unhandled mutating syscall %s", c.Line, c.Name))
		default:
			if !known[c.Name] {
				// non-mutating or untraced
			}
		}
	}
	return ops, unknown
}

// Apply performs one op on the image rooted at dir. prefix >= 0 limits a write to its first prefix bytes.
func Apply(dir string, op Op, prefix int) error {
	p := filepath.Join(dir, op.Path)
	switch op.Kind {
	case "mkdir":
		return os.MkdirAll(p, 0o755)
	case "create":
		flags := os.O_CREATE | os.O_WRONLY
		if op.Trunc {
			flags |= os.O_TRUNC
		}
		f, err := os.OpenFile(p, flags, 0o644)
		if err != nil {
			return err
		}
		return f.Close()
	case "write":
		f, err := os.OpenFile(p, os.O_WRONLY, 0o644)
		if err != nil {
			return err
		}
		defer f.Close()
		data := op.Data
		if prefix >= 0 && prefix < len(data) {
			data = data[:prefix]
		}
		off := op.Off
		if off < 0 {
			st, err := f.Stat()
			if err != nil {
				return err
			}
			off = st.Size()
		}
		_, err = f.WriteAt(data, off)
		return err
	case "trunc":
		return os.Truncate(p, op.Len)
	case "rename":
		return os.Rename(p, filepath.Join(dir, op.Path2))
	case "unlink":
		return os.Remove(p)
	case "rmdir":
		return os.Remove(p)
	}
	return nil
}

// Mutating reports whether the op changes the directory image.
func (o Op) Mutating() bool {
	switch o.Kind {
	case "mkdir", "create", "write", "trunc", "rename", "unlink", "rmdir":
		return true
	}
	return false
}

// CopyTree copies src to dst (dst must not exist or be empty).
func CopyTree(src, dst string) error {
	return filepath.Walk(src, func(p string, info os.FileInfo, err error) error {
		if err != nil {
			return err
		}
		r, _ := filepath.Rel(src, p)
		t := filepath.Join(dst, r)
		if info.IsDir() {
			return os.MkdirAll(t, 0o755)
		}
		data, err := os.ReadFile(p)
		if err != nil {
			return err
		}
		return os.WriteFile(t, data, 0o644)
	})
}

// SameTree compares two directory trees byte for byte.
func SameTree(a, b string) (bool, string) {
	la, lb := listTree(a), listTree(b)
	if len(la) != len(lb) {
		return false, fmt.Sprintf("%d vs %d paths: %v | %v", len(la), len(lb), keys(la), keys(lb))
	}
	for p, da := range la {
		db, ok := lb[p]
		if !ok {
			return false, "missing " + p
		}
		if da != db {
			return false, "content differs: " + p
		}
	}
	return true, ""
}

func keys(m map[string]string) []string {
	var out []string
	for k := range m {
		out = append(out, k)
	}
	return out
}

func listTree(root string) map[string]string {
	out := map[string]string{}
	filepath.Walk(root, func(p string, info os.FileInfo, err error) error {
		if err != nil {
			return nil
		}
		r, _ := filepath.Rel(root, p)
		if info.IsDir() {
			out[r+"/"] = ""
			return nil
		}
		data, _ := os.ReadFile(p)
		out[r] = string(data)
		return nil
	})
	return out
}
