// Package shim holds the monitoring wrappers around the real file-backed
// storage implementations and the monitor state machine.
package shim

import (
	"encoding/binary"
	"errors"
	"io"
	"math/rand"
	"os"
	"path/filepath"
	"sync"
	"sync/atomic"
	"time"

	"github.com/jmsadair/raft"

	"verif/harness/gid"
	"verif/harness/mon"
	"verif/harness/simnet"
)

// CrashPlan asks for a crash at the Nth occurrence of a storage operation.
type CrashPlan struct {
	Op    string // log.append log.trunc log.compact log.discard state.set snap.new snap.write snap.close snap.discard
	Nth   int    // 1 = next occurrence
	After bool
	Torn  int // for log.append with After=false: >0 = keep this many per-mille of the in-flight bytes in the image
	fired bool
}

// Inc is the context shared by all wrappers of one node incarnation.
type Inc struct {
	M    *mon.Monitor
	Net  *simnet.Net
	Node string
	N    int
	Dir  string

	dead atomic.Bool
	IoMu sync.RWMutex // storage operations hold it shared; a crash takes it exclusively

	planMu sync.Mutex
	plan   *CrashPlan
	// OnCrash performs the crash (copy directory, mark dead). Called on the library's goroutine
	// at the chosen storage-operation boundary. torn >= 0: see CrashPlan.Torn; preSize is the size
	// of log.bin before the in-flight append.
	OnCrash func(desc string, tornPermille int, preSize int64)

	Raft *raft.Raft
	EP   *simnet.Endpoint

	OpCount map[string]int
	ocMu    sync.Mutex

	// PubMu makes "snapshot becomes visible + its close event" atomic with respect to snapshot look-ups.
	PubMu sync.Mutex
}

func (c *Inc) Dead() bool { return c.dead.Load() }
func (c *Inc) MarkDead()  { c.dead.Store(true) }

func (c *Inc) SetPlan(p *CrashPlan) {
	c.planMu.Lock()
	if p == nil && c.plan != nil && c.plan.fired {
		// keep a fired plan (its crash is in progress)
		c.planMu.Unlock()
		return
	}
	c.plan = p
	c.planMu.Unlock()
}

func (c *Inc) emit(ev mon.Event) {
	if c.dead.Load() {
		return
	}
	ev.Node, ev.Inc = c.Node, c.N
	c.M.Emit(ev)
}

// point is called before (after=false) and after (after=true) every mutating storage operation.
// It returns true when a torn-append crash must be performed by the caller.
func (c *Inc) point(op string, after bool) (fire bool, torn int) {
	if c.dead.Load() {
		return false, 0
	}
	if !after {
		c.ocMu.Lock()
		if c.OpCount == nil {
			c.OpCount = map[string]int{}
		}
		c.OpCount[op]++
		c.ocMu.Unlock()
	}
	c.planMu.Lock()
	p := c.plan
	if p == nil || p.fired || p.Op != op || p.After != after {
		c.planMu.Unlock()
		return false, 0
	}
	p.Nth--
	if p.Nth > 0 {
		c.planMu.Unlock()
		return false, 0
	}
	p.fired = true
	c.planMu.Unlock()
	if p.Torn > 0 && op == "log.append" && !after {
		return true, p.Torn
	}
	pos := "before"
	if after {
		pos = "after"
	}
	if c.OnCrash != nil {
		c.OnCrash(pos+" "+op, -1, 0)
	}
	return false, 0
}

// ------------------------------------------------------------------ Log

type Log struct {
	inner raft.Log
	c     *Inc
}

func NewLog(c *Inc) (*Log, error) {
	inner, err := raft.NewLog(c.Dir)
	if err != nil {
		return nil, err
	}
	return &Log{inner: inner, c: c}, nil
}

func (l *Log) Open() error { return l.inner.Open() }

func (l *Log) Replay() error {
	if err := l.inner.Replay(); err != nil {
		return err
	}
	bi, bt, ok := raft.VerifLogBase(l.inner)
	if !ok {
		return nil
	}
	var ents []mon.Entry
	for i := bi + 1; i <= l.inner.LastIndex(); i++ {
		e, err := l.inner.GetEntry(i)
		if err != nil {
			break
		}
		ents = append(ents, l.c.Net.EntryOf(e))
	}
	l.c.emit(mon.Event{Kind: mon.KLogOpen, Idx: bi, Term: bt, Ents: ents})
	return nil
}

func (l *Log) Close() error                              { return l.inner.Close() }
func (l *Log) GetEntry(i uint64) (*raft.LogEntry, error) { return l.inner.GetEntry(i) }
func (l *Log) Contains(i uint64) bool                    { return l.inner.Contains(i) }
func (l *Log) LastIndex() uint64                         { return l.inner.LastIndex() }
func (l *Log) LastTerm() uint64                          { return l.inner.LastTerm() }
func (l *Log) NextIndex() uint64                         { return l.inner.NextIndex() }
func (l *Log) Size() int                                 { return l.inner.Size() }

func (l *Log) AppendEntry(e *raft.LogEntry) error { return l.append([]*raft.LogEntry{e}, true) }
func (l *Log) AppendEntries(es []*raft.LogEntry) error {
	if len(es) == 0 {
		return l.inner.AppendEntries(es)
	}
	return l.append(es, false)
}

func (l *Log) append(es []*raft.LogEntry, single bool) error {
	c := l.c
	if fire, torn := c.point("log.append", false); fire {
		// crash in the middle of this append: the image gets a byte prefix of what the append writes
		var pre int64 = -1
		if st, err := os.Stat(filepath.Join(c.Dir, "log", "log.bin")); err == nil {
			pre = st.Size()
		}
		c.IoMu.Lock()
		var err error
		if single {
			err = l.inner.AppendEntry(es[0])
		} else {
			err = l.inner.AppendEntries(es)
		}
		c.IoMu.Unlock()
		if c.OnCrash != nil {
			c.OnCrash("during log.append", torn, pre)
		}
		return err
	}
	c.IoMu.RLock()
	var err error
	if single {
		err = l.inner.AppendEntry(es[0])
	} else {
		err = l.inner.AppendEntries(es)
	}
	if err == nil && !c.Dead() {
		ev := mon.Event{Kind: mon.KLogAppend, Flag: single, Via: gid.Get()}
		for _, e := range es {
			ev.Ents = append(ev.Ents, c.Net.EntryOf(e))
		}
		if single && es[0].EntryType == raft.NoOpEntry && c.Raft != nil {
			// only becomeLeader does this, with the node mutex held
			ev.St = SampleOf(c.Raft.VerifStateLocked())
		}
		c.emit(ev)
	}
	c.IoMu.RUnlock()
	c.point("log.append", true)
	return err
}

func (l *Log) Truncate(index uint64) error {
	c := l.c
	c.point("log.trunc", false)
	c.IoMu.RLock()
	err := l.inner.Truncate(index)
	if err == nil {
		c.emit(mon.Event{Kind: mon.KLogTrunc, Idx: index, Via: gid.Get()})
	}
	c.IoMu.RUnlock()
	c.point("log.trunc", true)
	return err
}

func (l *Log) Compact(index uint64) error {
	c := l.c
	c.point("log.compact", false)
	c.IoMu.RLock()
	err := l.inner.Compact(index)
	if err == nil {
		ev := mon.Event{Kind: mon.KLogCompact, Idx: index, Via: gid.Get()}
		if _, bt, ok := raft.VerifLogBase(l.inner); ok {
			ev.Flag, ev.Term, ev.Cnt, ev.Lst = true, bt, uint64(l.inner.Size()), l.inner.LastIndex()
		}
		c.emit(ev)
	}
	c.IoMu.RUnlock()
	c.point("log.compact", true)
	return err
}

func (l *Log) DiscardEntries(index, term uint64) error {
	c := l.c
	c.point("log.discard", false)
	c.IoMu.RLock()
	err := l.inner.DiscardEntries(index, term)
	if err == nil {
		c.emit(mon.Event{Kind: mon.KLogDiscard, Idx: index, Term: term, Via: gid.Get()})
	}
	c.IoMu.RUnlock()
	c.point("log.discard", true)
	return err
}

// ------------------------------------------------------------------ StateStorage

type State struct {
	inner  raft.StateStorage
	c      *Inc
	opened bool
}

func NewState(c *Inc) (*State, error) {
	inner, err := raft.NewStateStorage(c.Dir)
	if err != nil {
		return nil, err
	}
	return &State{inner: inner, c: c}, nil
}

func (s *State) SetState(term uint64, vote string) error {
	c := s.c
	c.point("state.set", false)
	c.IoMu.RLock()
	err := s.inner.SetState(term, vote)
	if err == nil {
		c.emit(mon.Event{Kind: mon.KStateSet, Term: term, Str: vote, Via: gid.Get()})
	}
	c.IoMu.RUnlock()
	c.point("state.set", true)
	return err
}

func (s *State) State() (uint64, string, error) {
	t, v, err := s.inner.State()
	if err == nil && !s.opened {
		s.opened = true
		s.c.emit(mon.Event{Kind: mon.KStateOpen, Term: t, Str: v})
	}
	return t, v, err
}

// ------------------------------------------------------------------ SnapshotStorage

var snapIDs int64

type Snaps struct {
	inner raft.SnapshotStorage
	c     *Inc
}

func NewSnaps(c *Inc) (*Snaps, error) {
	inner, err := raft.NewSnapshotStorage(c.Dir)
	if err != nil {
		return nil, err
	}
	return &Snaps{inner: inner, c: c}, nil
}

// SnapFile wraps a snapshot file (being written or being read).
type SnapFile struct {
	inner   raft.SnapshotFile
	c       *Inc
	ID      int
	Writing bool
	buf     []byte // everything written so far (by offset)
	pos     int64
	closed  bool
	mu      sync.Mutex
}

func (s *Snaps) NewSnapshotFile(idx, term uint64, cfg []byte) (raft.SnapshotFile, error) {
	c := s.c
	c.point("snap.new", false)
	c.IoMu.RLock()
	f, err := s.inner.NewSnapshotFile(idx, term, cfg)
	var sf *SnapFile
	if err == nil {
		sf = &SnapFile{inner: f, c: c, ID: int(atomic.AddInt64(&snapIDs, 1)), Writing: true}
		c.emit(mon.Event{Kind: mon.KSnapNew, Inst: sf.ID, Idx: idx, Term: term, Cfg: c.Net.DecodeCfg(cfg), Via: gid.Get()})
	}
	c.IoMu.RUnlock()
	c.point("snap.new", true)
	if err != nil {
		return nil, err
	}
	return sf, nil
}

func (s *Snaps) SnapshotFile() (raft.SnapshotFile, error) {
	c := s.c
	c.PubMu.Lock()
	pre := c.M.Now()
	f, err := s.inner.SnapshotFile()
	c.PubMu.Unlock()
	if err != nil {
		return nil, err
	}
	if f == nil {
		c.emit(mon.Event{Kind: mon.KSnapOpen, Flag: false, Cnt: pre})
		return nil, nil
	}
	md := f.Metadata()
	data, rerr := io.ReadAll(f)
	if rerr == nil {
		_, rerr = f.Seek(0, io.SeekStart)
	}
	if rerr != nil {
		return nil, rerr
	}
	c.emit(mon.Event{Kind: mon.KSnapOpen, Flag: true, Cnt: pre, Idx: md.LastIncludedIndex, Term: md.LastIncludedTerm, Num: int64(len(data)), Hash: mon.HashBytes(data), Cfg: c.Net.DecodeCfg(md.Configuration)})
	return &SnapFile{inner: f, c: c, ID: int(atomic.AddInt64(&snapIDs, 1))}, nil
}

func (f *SnapFile) Metadata() raft.SnapshotMetadata { return f.inner.Metadata() }

func (f *SnapFile) Read(p []byte) (int, error) { return f.inner.Read(p) }

func (f *SnapFile) Seek(off int64, whence int) (int64, error) {
	n, err := f.inner.Seek(off, whence)
	if err == nil {
		f.mu.Lock()
		f.pos = n
		f.mu.Unlock()
	}
	return n, err
}

func (f *SnapFile) Write(p []byte) (int, error) {
	c := f.c
	c.point("snap.write", false)
	c.IoMu.RLock()
	n, err := f.inner.Write(p)
	if n > 0 {
		f.mu.Lock()
		end := f.pos + int64(n)
		if int64(len(f.buf)) < end {
			f.buf = append(f.buf, make([]byte, end-int64(len(f.buf)))...)
		}
		copy(f.buf[f.pos:end], p[:n])
		off := f.pos
		f.pos = end
		f.mu.Unlock()
		c.emit(mon.Event{Kind: mon.KSnapWrite, Inst: f.ID, Num: off, Cnt: uint64(n), Hash: mon.HashBytes(p[:n]), Via: gid.Get()})
	}
	c.IoMu.RUnlock()
	c.point("snap.write", true)
	return n, err
}

func (f *SnapFile) Close() error {
	c := f.c
	if !f.Writing || f.closed {
		return f.inner.Close()
	}
	c.point("snap.close", false)
	c.IoMu.RLock()
	c.PubMu.Lock()
	err := f.inner.Close()
	if err == nil {
		f.closed = true
		ev := mon.Event{Kind: mon.KSnapClose, Inst: f.ID, Num: int64(len(f.buf)), Hash: mon.HashBytes(f.buf)}
		if cnt, chn, lst, ok := DecodeSnap(f.buf); ok {
			ev.Flag, ev.Cnt, ev.Chn, ev.Lst = true, cnt, chn, lst
		}
		c.emit(ev)
	}
	c.PubMu.Unlock()
	c.IoMu.RUnlock()
	c.point("snap.close", true)
	return err
}

func (f *SnapFile) Discard() error {
	c := f.c
	if !f.Writing || f.closed {
		return f.inner.Discard()
	}
	c.point("snap.discard", false)
	c.IoMu.RLock()
	err := f.inner.Discard()
	if err == nil {
		f.closed = true
		c.emit(mon.Event{Kind: mon.KSnapDiscard, Inst: f.ID})
	}
	c.IoMu.RUnlock()
	c.point("snap.discard", true)
	return err
}

// ------------------------------------------------------------------ state machine

const snapMagic = 0x5641465356455249 // "VAFSVERI"

// EncodeSnap serialises the monitor state machine's state plus padding.
func EncodeSnap(cnt, chn, lst uint64, pad int) []byte {
	b := make([]byte, 40+pad)
	binary.LittleEndian.PutUint64(b[0:], snapMagic)
	binary.LittleEndian.PutUint64(b[8:], cnt)
	binary.LittleEndian.PutUint64(b[16:], chn)
	binary.LittleEndian.PutUint64(b[24:], lst)
	binary.LittleEndian.PutUint64(b[32:], uint64(pad))
	x := chn | 1
	for i := 40; i < len(b); i++ {
		x = x*6364136223846793005 + 1442695040888963407
		b[i] = byte(x >> 56)
	}
	return b
}

func DecodeSnap(b []byte) (cnt, chn, lst uint64, ok bool) {
	if len(b) < 40 || binary.LittleEndian.Uint64(b[0:]) != snapMagic {
		return 0, 0, 0, false
	}
	cnt = binary.LittleEndian.Uint64(b[8:])
	chn = binary.LittleEndian.Uint64(b[16:])
	lst = binary.LittleEndian.Uint64(b[24:])
	pad := binary.LittleEndian.Uint64(b[32:])
	if uint64(len(b)) != 40+pad {
		return 0, 0, 0, false
	}
	want := EncodeSnap(cnt, chn, lst, int(pad))
	for i := 40; i < len(b); i++ {
		if b[i] != want[i] {
			return 0, 0, 0, false
		}
	}
	return cnt, chn, lst, true
}

// Resp is what the state machine returns from Apply.
type Resp struct {
	Cnt, Chn, Lst uint64
}

// FSMOpts configures delays and snapshot behaviour.
type FSMOpts struct {
	SnapThreshold int  // NeedSnapshot when log size >= threshold (0 = never)
	Pad           int  // padding bytes in snapshots
	Opaque        bool // write 0-byte snapshots
	ApplyPreUs    int  // random delay before taking the FSM lock in Apply (max, microseconds)
	ApplyInUs     int  // random delay inside the critical section
	ApplyFixUs    int  // fixed delay inside the critical section (directed windows)
	SnapFixUs     int  // fixed delay inside Snapshot (directed windows)
	SnapUs        int  // delay inside Snapshot (inside the critical section)
	SnapPreUs     int
	RestoreUs     int
	Seed          int64
	NoSnap        func(node string) bool // nodes whose application never asks for a snapshot (policies may differ between nodes)
}

var fsmIDs int64

// FSM is the monitor state machine: an append-only hash chain.
type FSM struct {
	c    *Inc
	ID   int
	opts FSMOpts
	mu   sync.Mutex
	cnt  uint64
	chn  uint64
	lst  uint64
	rng  *rand.Rand
	rmu  sync.Mutex
}

func NewFSM(c *Inc, o FSMOpts) *FSM {
	return &FSM{c: c, ID: int(atomic.AddInt64(&fsmIDs, 1)), opts: o, rng: rand.New(rand.NewSource(o.Seed + int64(c.N)*7919))}
}

func (f *FSM) sleep(maxUs int) {
	if maxUs <= 0 {
		return
	}
	f.rmu.Lock()
	d := f.rng.Intn(maxUs + 1)
	f.rmu.Unlock()
	time.Sleep(time.Duration(d) * time.Microsecond)
}

// OpID extracts the operation id from operation bytes ("id|padding").
func OpID(b []byte) string {
	for i, ch := range b {
		if ch == '|' {
			return string(b[:i])
		}
	}
	return string(b)
}

func (f *FSM) State() (uint64, uint64, uint64) {
	f.mu.Lock()
	defer f.mu.Unlock()
	return f.cnt, f.chn, f.lst
}

func (f *FSM) Apply(op *raft.Operation) interface{} {
	if op.OperationType != raft.Replicated {
		f.mu.Lock()
		r := Resp{f.cnt, f.chn, f.lst}
		f.c.emit(mon.Event{Kind: mon.KRead, Inst: f.ID, Str: OpID(op.Bytes), Cnt: r.Cnt, Chn: r.Chn, Lst: r.Lst})
		f.mu.Unlock()
		return r
	}
	f.sleep(f.opts.ApplyPreUs)
	f.mu.Lock()
	f.sleep(f.opts.ApplyInUs)
	if f.opts.ApplyFixUs > 0 {
		time.Sleep(time.Duration(f.opts.ApplyFixUs) * time.Microsecond)
	}
	h := mon.HashBytes(op.Bytes)
	f.cnt++
	f.chn = mon.FsmStep(f.chn, op.LogIndex, op.LogTerm, h)
	f.lst = op.LogIndex
	r := Resp{f.cnt, f.chn, f.lst}
	f.c.emit(mon.Event{Kind: mon.KApply, Inst: f.ID, Idx: op.LogIndex, Term: op.LogTerm, Hash: h, Str: OpID(op.Bytes), Cnt: r.Cnt, Chn: r.Chn})
	f.mu.Unlock()
	return r
}

func (f *FSM) Snapshot(w io.Writer) error {
	f.sleep(f.opts.SnapPreUs)
	f.mu.Lock()
	f.sleep(f.opts.SnapUs)
	if f.opts.SnapFixUs > 0 {
		time.Sleep(time.Duration(f.opts.SnapFixUs) * time.Microsecond)
	}
	cnt, chn, lst := f.cnt, f.chn, f.lst
	var data []byte
	if !f.opts.Opaque {
		data = EncodeSnap(cnt, chn, lst, f.opts.Pad)
	}
	f.c.emit(mon.Event{Kind: mon.KFsmSnap, Inst: f.ID, Cnt: cnt, Chn: chn, Lst: lst, Num: int64(len(data))})
	f.mu.Unlock()
	// write in a few pieces so that partial writes exist as crash points
	for len(data) > 0 {
		n := len(data)
		if n > 64*1024 {
			n = 64 * 1024
		}
		if _, err := w.Write(data[:n]); err != nil {
			return err
		}
		data = data[n:]
	}
	return nil
}

func (f *FSM) Restore(r io.Reader) error {
	data, err := io.ReadAll(r)
	if err != nil {
		return err
	}
	f.sleep(f.opts.RestoreUs)
	ev := mon.Event{Kind: mon.KRestore, Inst: f.ID, Num: int64(len(data)), Hash: mon.HashBytes(data), Via: gid.Get()}
	if sf, ok := r.(*SnapFile); ok {
		md := sf.Metadata()
		ev.Idx, ev.Term = md.LastIncludedIndex, md.LastIncludedTerm
	} else if sf, ok := r.(raft.SnapshotFile); ok {
		md := sf.Metadata()
		ev.Idx, ev.Term = md.LastIncludedIndex, md.LastIncludedTerm
	}
	f.mu.Lock()
	defer f.mu.Unlock()
	if f.opts.Opaque {
		f.c.emit(ev)
		return nil
	}
	cnt, chn, lst, ok := DecodeSnap(data)
	if !ok {
		f.c.emit(ev)
		return errors.New("monitor state machine: undecodable snapshot")
	}
	f.cnt, f.chn, f.lst = cnt, chn, lst
	ev.Flag, ev.Cnt, ev.Chn, ev.Lst = true, cnt, chn, lst
	f.c.emit(ev)
	return nil
}

func (f *FSM) NeedSnapshot(logSize int) bool {
	if f.opts.NoSnap != nil && f.opts.NoSnap(f.c.Node) {
		return false
	}
	return f.opts.SnapThreshold > 0 && logSize >= f.opts.SnapThreshold
}

// SampleOf converts the hook's state into the monitor's representation.
func SampleOf(s raft.VerifState) *mon.Sample {
	out := &mon.Sample{Term: s.Term, Vote: s.VotedFor, Commit: s.CommitIndex, Applied: s.LastApplied, LII: s.LastIncludedIndex, LIT: s.LastIncludedTerm, Leader: s.LeaderID, LeaseValid: s.LeaseValid, Match: s.Match, Next: s.Next}
	out.State = StateName(s.State)
	out.Cfg = simnet.CfgOf(s.Configuration)
	out.CCfg = simnet.CfgOf(s.CommittedConfiguration)
	return out
}

func StateName(s raft.State) string {
	switch s {
	case raft.Leader:
		return "leader"
	case raft.Follower:
		return "follower"
	case raft.PreCandidate:
		return "precandidate"
	case raft.Candidate:
		return "candidate"
	case raft.Shutdown:
		return "shutdown"
	}
	return "invalid"
}
