package cluster

import (
	"errors"
	"fmt"
	"strings"
	"time"

	"github.com/jmsadair/raft"

	"verif/harness/mon"
	"verif/harness/shim"
	"verif/harness/simnet"
)

func errKind(err error) string {
	switch {
	case err == nil:
		return "ok"
	case errors.Is(err, raft.ErrTimeout):
		return "timeout"
	case errors.Is(err, raft.ErrNotLeader):
		return "err:notleader"
	case errors.Is(err, raft.ErrInvalidLease):
		return "err:lease"
	case errors.Is(err, raft.ErrPendingConfiguration):
		return "err:pending"
	case errors.Is(err, raft.ErrNoCommitThisTerm):
		return "err:nocommit"
	}
	return "err:other:" + err.Error()
}

// Submit performs one client operation against a node and records call/return at the client boundary.
// typ: "W" replicated write, "LR" linearizable read, "SR" lease-based read.
func (c *Cluster) Submit(client int, id string, typ string, target string, timeout time.Duration, pad int) *mon.Op {
	n := c.Node(target)
	if n == nil {
		return nil
	}
	n.mu.Lock()
	inc, r, up := n.Cur, n.Raft, n.Up
	n.mu.Unlock()
	if !up || inc == nil || inc.Dead() {
		return nil
	}
	op := &mon.Op{Client: client, ID: id, Type: typ, Target: target, TInc: inc.N}
	data := []byte(id)
	if pad > 0 {
		data = append(data, '|')
		data = append(data, []byte(strings.Repeat("x", pad))...)
	}
	var ot raft.OperationType
	switch typ {
	case "W":
		ot = raft.Replicated
	case "LR":
		ot = raft.LinearizableReadOnly
	case "SR":
		ot = raft.LeaseBasedReadOnly
	}
	c.M.Emit(mon.Event{Kind: mon.KCall, Op: op})
	fut := r.SubmitOperation(data, ot, timeout)
	res := fut.Await()
	ret := *op
	ret.Outcome = errKind(res.Error())
	if res.Error() == nil {
		resp := res.Success()
		ret.Index, ret.Term = resp.Operation.LogIndex, resp.Operation.LogTerm
		ret.BytesOK = string(resp.Operation.Bytes) == string(data)
		if ar, ok := resp.ApplicationResponse.(shim.Resp); ok {
			ret.Count, ret.Chain, ret.LastIx = ar.Cnt, ar.Chn, ar.Lst
		} else {
			ret.Outcome = fmt.Sprintf("err:other:application response %T", resp.ApplicationResponse)
		}
	}
	if inc.Dead() {
		// the process that would have answered is dead: the client never saw this outcome
		ret.Outcome = "unknown"
	}
	c.M.Emit(mon.Event{Kind: mon.KRet, Op: &ret})
	return &ret
}

// Member performs AddServer (add=true) or RemoveServer against target.
func (c *Cluster) Member(client int, id string, add bool, server string, voter bool, target string, timeout time.Duration) *mon.Op {
	n := c.Node(target)
	if n == nil {
		return nil
	}
	n.mu.Lock()
	inc, r, up := n.Cur, n.Raft, n.Up
	n.mu.Unlock()
	if !up || inc == nil || inc.Dead() {
		return nil
	}
	typ := "REM"
	if add {
		typ = "ADD"
	}
	op := &mon.Op{Client: client, ID: id, Type: typ, Target: target, TInc: inc.N, Server: server, Voter: voter}
	c.M.Emit(mon.Event{Kind: mon.KCall, Op: op})
	var fut raft.Future[raft.Configuration]
	if add {
		fut = r.AddServer(server, server, voter, timeout)
	} else {
		fut = r.RemoveServer(server, timeout)
	}
	res := fut.Await()
	ret := *op
	ret.Outcome = errKind(res.Error())
	if res.Error() == nil {
		cfg := res.Success()
		ret.Cfg = simnet.CfgOf(&cfg)
		// C09 (2): a successful future reports a COMMITTED configuration that contains the requested change
		if !inc.Dead() {
			st := r.VerifState()
			v, member := ret.Cfg.Members[server]
			switch {
			case add && (!member || v != voter):
				c.M.AddViolation(mon.Violation{Props: []string{"C09", "C18"}, Sig: "membership-future-wrong-configuration", Node: target, Msg: fmt.Sprintf("AddServer(%s, voter=%v) at %s succeeded with configuration %s, which does not contain the change", server, voter, target, ret.Cfg.Canon())})
			case !add && member:
				c.M.AddViolation(mon.Violation{Props: []string{"C09", "C18"}, Sig: "membership-future-wrong-configuration", Node: target, Msg: fmt.Sprintf("RemoveServer(%s) at %s succeeded with configuration %s, which still contains it", server, target, ret.Cfg.Canon())})
			case ret.Cfg.Index > st.CommitIndex && st.State != raft.Shutdown:
				c.M.AddViolation(mon.Violation{Props: []string{"C09"}, Sig: "membership-future-uncommitted", Node: target, Msg: fmt.Sprintf("membership future at %s succeeded with configuration index %d while the commit index of that node is %d", target, ret.Cfg.Index, st.CommitIndex)})
			}
		}
	}
	if inc.Dead() {
		ret.Outcome = "unknown"
	}
	c.M.Emit(mon.Event{Kind: mon.KRet, Op: &ret})
	return &ret
}
