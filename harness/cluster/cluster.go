// Package cluster manages real raft nodes on the simulated network: creation,
// bootstrap, start, graceful stop, crash-fork, restart, sampling and clients.
package cluster

import (
	"fmt"
	"io"
	"math/rand"
	"os"
	"path/filepath"
	"runtime"
	"sort"
	"sync"
	"sync/atomic"
	"time"

	"github.com/jmsadair/raft"
	"github.com/jmsadair/raft/logging"

	"verif/harness/mon"
	"verif/harness/shim"
	"verif/harness/simnet"
)

type Options struct {
	ET, HB, Lease time.Duration
	FSM           shim.FSMOpts
	SampleEvery   time.Duration
}

type Node struct {
	ID          string
	cl          *Cluster
	mu          sync.Mutex // life-cycle
	Cur         *shim.Inc
	Raft        *raft.Raft
	FSM         *shim.FSM
	Dir         string // directory holding the node's disk state (image while down)
	incN        int
	Up          bool
	smu         sync.Mutex // serialises samples of this node
	stopSampler chan struct{}
	Crashes     int
	LastCrash   string
	StartErr    string
}

type Cluster struct {
	M       *mon.Monitor
	Net     *simnet.Net
	Root    string
	Opts    Options
	Nodes   map[string]*Node
	order   []string
	mu      sync.Mutex
	Rng     *rand.Rand
	rngMu   sync.Mutex
	dirN    int64
	zombies sync.WaitGroup

	loggers    sync.Map // *logging.Logger -> *shim.Inc
	leaseCh    chan mon.Event
	FatalSeen  atomic.Int32
	StallMaxNs atomic.Int64
	stopStall  chan struct{}
}

var fatalOnce sync.Once
var current atomic.Pointer[Cluster]

func New(m *mon.Monitor, root string, seed int64, o Options) *Cluster {
	if o.SampleEvery == 0 {
		o.SampleEvery = 2 * time.Millisecond
	}
	c := &Cluster{M: m, Net: simnet.New(m, seed^0x5eed), Root: root, Opts: o, Nodes: map[string]*Node{}, Rng: rand.New(rand.NewSource(seed)), stopStall: make(chan struct{})}
	current.Store(c)
	fatalOnce.Do(func() {
		logging.VerifFatalHook = func(l *logging.Logger, msg string) {
			cc := current.Load()
			if cc == nil {
				return
			}
			cc.onFatal(l, msg)
		}
	})
	go c.stallDetector()
	// lease watcher: right after every leadership start, sample everybody; another node that still reports the
	// leader state with a valid lease at that moment means a leader was elected inside somebody's lease (C17)
	c.leaseCh = make(chan mon.Event, 64)
	prev := m.OnEvent
	m.OnEvent = func(ev *mon.Event) {
		if prev != nil {
			prev(ev)
		}
		if ev.Kind == mon.KLogAppend && ev.Flag && len(ev.Ents) == 1 && ev.Ents[0].Type == 0 {
			select {
			case c.leaseCh <- *ev:
			default:
			}
		}
	}
	go c.leaseWatcher()
	return c
}

func (c *Cluster) leaseWatcher() {
	for {
		select {
		case <-c.stopStall:
			return
		case ev := <-c.leaseCh:
			for _, id := range c.IDs() {
				if id == ev.Node {
					continue
				}
				n := c.Node(id)
				if n == nil || !n.IsUp() {
					continue
				}
				s := n.Sample()
				if s != nil && s.State == "leader" && s.LeaseValid && s.Term < ev.Ents[0].Term {
					c.M.Emit(mon.Event{Kind: mon.KLeaseOverlap, Node: ev.Node, Term: ev.Ents[0].Term, Str: id, Idx: s.Term})
				}
			}
		}
	}
}

// FatalHandler is called (on the failing goroutine) for a fatal of a live incarnation, after the
// event was recorded; the process exits when it returns. vrun sets it to flush results.
var FatalHandler func(node string, msg string)

func (c *Cluster) onFatal(l *logging.Logger, msg string) {
	v, ok := c.loggers.Load(l)
	if ok {
		inc := v.(*shim.Inc)
		if inc.Dead() {
			// a zombie (crashed incarnation still running on its old directory): nothing it does is observable
			runtime.Goexit()
		}
		c.FatalSeen.Add(1)
		c.M.Emit(mon.Event{Kind: mon.KFatal, Node: inc.Node, Inc: inc.N, Str: msg})
		if FatalHandler != nil {
			FatalHandler(inc.Node, msg)
		}
		return
	}
	c.FatalSeen.Add(1)
	c.M.Emit(mon.Event{Kind: mon.KFatal, Str: msg})
	if FatalHandler != nil {
		FatalHandler("?", msg)
	}
}

func (c *Cluster) stallDetector() {
	const step = 2 * time.Millisecond
	last := time.Now()
	for {
		select {
		case <-c.stopStall:
			return
		default:
		}
		time.Sleep(step)
		now := time.Now()
		over := int64(now.Sub(last) - step)
		if over > c.StallMaxNs.Load() {
			c.StallMaxNs.Store(over)
		}
		last = now
	}
}

// ResetStall starts a new stall-measurement window.
func (c *Cluster) ResetStall() { c.StallMaxNs.Store(0); c.Net.ResetRTT() }

func (c *Cluster) Intn(n int) int {
	c.rngMu.Lock()
	defer c.rngMu.Unlock()
	return c.Rng.Intn(n)
}

func (c *Cluster) IDs() []string {
	c.mu.Lock()
	defer c.mu.Unlock()
	return append([]string(nil), c.order...)
}

func (c *Cluster) Node(id string) *Node {
	c.mu.Lock()
	defer c.mu.Unlock()
	return c.Nodes[id]
}

func (c *Cluster) newDir(id string) string {
	n := atomic.AddInt64(&c.dirN, 1)
	d := filepath.Join(c.Root, fmt.Sprintf("%s-%d", id, n))
	os.MkdirAll(d, 0o755)
	return d
}

// AddNode creates a node over a fresh directory (not started).
func (c *Cluster) AddNode(id string) (*Node, error) {
	n := &Node{ID: id, cl: c, Dir: c.newDir(id)}
	c.mu.Lock()
	c.Nodes[id] = n
	c.order = append(c.order, id)
	c.mu.Unlock()
	if err := n.create(false); err != nil {
		return nil, err
	}
	return n, nil
}

// create builds a new incarnation (real storages, wrapped) over n.Dir.
func (n *Node) create(restart bool) error {
	c := n.cl
	n.incN++
	inc := &shim.Inc{M: c.M, Net: c.Net, Node: n.ID, N: n.incN, Dir: n.Dir}
	c.M.Emit(mon.Event{Kind: mon.KNodeNew, Node: n.ID, Inc: n.incN, Flag: restart})
	log, err := shim.NewLog(inc)
	if err != nil {
		return fmt.Errorf("NewLog: %w", err)
	}
	st, err := shim.NewState(inc)
	if err != nil {
		return fmt.Errorf("NewStateStorage: %w", err)
	}
	sn, err := shim.NewSnaps(inc)
	if err != nil {
		return fmt.Errorf("NewSnapshotStorage: %w", err)
	}
	ep := c.Net.NewEndpoint(n.ID, n.incN)
	inc.EP = ep
	fo := c.Opts.FSM
	fsm := shim.NewFSM(inc, fo)
	r, err := raft.NewRaft(n.ID, n.ID, fsm, n.Dir,
		raft.WithLog(log), raft.WithStateStorage(st), raft.WithSnapshotStorage(sn), raft.WithTransport(ep),
		raft.WithElectionTimeout(c.Opts.ET), raft.WithHeartbeatInterval(c.Opts.HB), raft.WithLeaseDuration(c.Opts.Lease),
		raft.WithLogLevel(logging.Fatal))
	if err != nil {
		return fmt.Errorf("NewRaft: %w", err)
	}
	inc.Raft = r
	c.loggers.Store(r.VerifLogger(), inc)
	inc.OnCrash = func(desc string, torn int, pre int64) { n.crashNow(inc, desc, torn, pre) }
	ep.PostHandler = func(id uint64) { n.sampleVia(inc, id) }
	n.Cur, n.Raft, n.FSM = inc, r, fsm
	return nil
}

// R returns the node's current Raft object (safe against a concurrent restart).
func (n *Node) R() *raft.Raft {
	n.mu.Lock()
	defer n.mu.Unlock()
	return n.Raft
}

// Bootstrap bootstraps the node with the given voters (id == address).
func (n *Node) Bootstrap(voters []string) error {
	cfg := map[string]string{}
	for _, v := range voters {
		cfg[v] = v
	}
	return n.Raft.Bootstrap(cfg)
}

func (n *Node) Start() error {
	n.mu.Lock()
	defer n.mu.Unlock()
	err := n.Raft.Start()
	es := ""
	if err != nil {
		es = err.Error()
		n.StartErr = es
	}
	n.cl.M.Emit(mon.Event{Kind: mon.KNodeStart, Node: n.ID, Inc: n.incN, Str: es})
	if err != nil {
		return err
	}
	n.Up = true
	n.startSampler()
	return nil
}

func (n *Node) startSampler() {
	stop := make(chan struct{})
	n.stopSampler = stop
	inc := n.Cur
	every := n.cl.Opts.SampleEvery
	go func() {
		for {
			select {
			case <-stop:
				return
			case <-time.After(every):
			}
			if inc.Dead() {
				return
			}
			n.sample(inc)
		}
	}()
}

// sample takes a locked state sample of an incarnation and records it; samples of one node are serialised
// so that they are recorded in the order they were taken.
func (n *Node) sample(inc *shim.Inc) *mon.Sample { return n.sampleVia(inc, 0) }

func (n *Node) sampleVia(inc *shim.Inc, via uint64) *mon.Sample {
	if inc.Dead() || inc.Raft == nil {
		return nil
	}
	n.smu.Lock()
	defer n.smu.Unlock()
	floor := n.cl.M.TermFloor(n.ID)
	lv := n.cl.M.LogVersion(n.ID)
	sv := n.cl.M.StateVersion(n.ID)
	s := shim.SampleOf(inc.Raft.VerifState())
	s.Floor = floor
	s.LV = lv
	s.SV = sv
	if inc.Dead() || s.State == "shutdown" {
		return s
	}
	n.cl.M.Emit(mon.Event{Kind: mon.KSample, Node: n.ID, Inc: inc.N, St: s, Via: via})
	return s
}

// Sample returns a fresh sample of the live incarnation (nil if down).
func (n *Node) Sample() *mon.Sample {
	n.mu.Lock()
	inc, up := n.Cur, n.Up
	n.mu.Unlock()
	if !up || inc == nil {
		return nil
	}
	return n.sample(inc)
}

// Stop shuts the node down gracefully.
func (n *Node) Stop() {
	n.mu.Lock()
	defer n.mu.Unlock()
	if !n.Up {
		return
	}
	n.Up = false
	close(n.stopSampler)
	n.cl.M.Emit(mon.Event{Kind: mon.KNodeStop, Node: n.ID, Inc: n.incN})
	inc := n.Cur
	n.Raft.Stop()
	inc.MarkDead()
	inc.EP.Kill()
}

// Crash kills the node now (at the next storage-operation boundary).
func (n *Node) Crash(desc string) bool {
	n.mu.Lock()
	inc, up := n.Cur, n.Up
	n.mu.Unlock()
	if !up || inc == nil || inc.Dead() {
		return false
	}
	n.crashNow(inc, desc, -1, 0)
	return true
}

// PlanCrash arms a crash at a storage-operation boundary of the live incarnation.
func (n *Node) PlanCrash(p *shim.CrashPlan) {
	n.mu.Lock()
	inc := n.Cur
	n.mu.Unlock()
	if inc != nil {
		inc.SetPlan(p)
	}
}

func copyTree(src, dst string) error {
	return filepath.Walk(src, func(p string, info os.FileInfo, err error) error {
		if err != nil {
			if os.IsNotExist(err) {
				return nil
			}
			return err
		}
		rel, _ := filepath.Rel(src, p)
		t := filepath.Join(dst, rel)
		if info.IsDir() {
			return os.MkdirAll(t, 0o755)
		}
		in, err := os.Open(p)
		if err != nil {
			if os.IsNotExist(err) {
				return nil
			}
			return err
		}
		defer in.Close()
		out, err := os.Create(t)
		if err != nil {
			return err
		}
		defer out.Close()
		_, err = io.Copy(out, in)
		return err
	})
}

// crashNow performs the crash-fork of an incarnation: with all storage operations quiesced, copy the
// directory (what kill -9 would leave), mark the incarnation dead, and let the zombie run out on the
// old directory, unobserved.
func (n *Node) crashNow(inc *shim.Inc, desc string, torn int, pre int64) {
	c := n.cl
	inc.IoMu.Lock()
	if inc.Dead() {
		inc.IoMu.Unlock()
		return
	}
	img := c.newDir(n.ID)
	err := copyTree(inc.Dir, img)
	if err == nil && torn >= 0 && pre >= 0 {
		lp := filepath.Join(img, "log", "log.bin")
		if st, e := os.Stat(lp); e == nil && st.Size() > pre {
			delta := st.Size() - pre
			keep := delta * int64(torn) / 1000
			if keep >= delta {
				keep = delta - 1
			}
			os.Truncate(lp, pre+keep)
			desc = fmt.Sprintf("%s (kept %d of %d in-flight bytes)", desc, keep, delta)
		}
	}
	role := ""
	c.M.Lock()
	if sh := c.M.Nodes[n.ID]; sh != nil {
		role = shRole(sh)
	}
	c.M.Unlock()
	c.M.Emit(mon.Event{Kind: mon.KNodeCrash, Node: n.ID, Inc: inc.N, Str: desc + " role=" + role})
	inc.MarkDead()
	inc.EP.Kill()
	inc.IoMu.Unlock()
	if err != nil {
		c.M.Emit(mon.Event{Kind: mon.KNote, Node: n.ID, Str: "copy failed: " + err.Error()})
	}
	// must not block: we may be on the library's goroutine holding the node mutex
	go func() {
		n.mu.Lock()
		if n.Cur == inc {
			n.Up = false
			if n.stopSampler != nil {
				select {
				case <-n.stopSampler:
				default:
					close(n.stopSampler)
				}
			}
			n.Dir = img
			n.Crashes++
			n.LastCrash = desc
		}
		n.mu.Unlock()
		c.zombies.Add(1)
		defer c.zombies.Done()
		done := make(chan struct{})
		go func() { inc.Raft.Stop(); close(done) }()
		select {
		case <-done:
		case <-time.After(20 * time.Second):
		}
	}()
}

func shRole(sh *mon.NodeSh) string { return sh.Role() }

// WaitDown waits until a planned/asynchronous crash has been registered by the life-cycle.
func (n *Node) WaitDown(d time.Duration) bool {
	dl := time.Now().Add(d)
	for time.Now().Before(dl) {
		n.mu.Lock()
		up := n.Up
		n.mu.Unlock()
		if !up {
			return true
		}
		time.Sleep(time.Millisecond)
	}
	return false
}

func (n *Node) IsUp() bool {
	n.mu.Lock()
	defer n.mu.Unlock()
	return n.Up
}

// Restart creates a fresh incarnation over the node's directory (image) and starts it.
func (n *Node) Restart() error {
	n.mu.Lock()
	if n.Up {
		n.mu.Unlock()
		return nil
	}
	err := n.create(true)
	n.mu.Unlock()
	if err != nil {
		n.cl.M.Emit(mon.Event{Kind: mon.KNodeStart, Node: n.ID, Inc: n.incN, Str: "create: " + err.Error()})
		n.StartErr = err.Error()
		return err
	}
	return n.Start()
}

// Shutdown stops everything and removes scratch data.
func (c *Cluster) Shutdown() {
	c.Net.Heal()
	for _, id := range c.IDs() {
		nd := c.Node(id)
		done := make(chan struct{})
		go func() { nd.Stop(); close(done) }()
		select {
		case <-done:
		case <-time.After(15 * time.Second):
		}
	}
	c.Net.Close()
	w := make(chan struct{})
	go func() { c.zombies.Wait(); close(w) }()
	select {
	case <-w:
	case <-time.After(10 * time.Second):
	}
	close(c.stopStall)
}

// Leader returns the id of a live node that reports the leader state with the highest term ("" if none).
func (c *Cluster) Leader() string {
	best, bt := "", uint64(0)
	for _, id := range c.IDs() {
		n := c.Node(id)
		if !n.IsUp() {
			continue
		}
		st := n.R().Status()
		if st.State == raft.Leader && st.Term >= bt {
			best, bt = id, st.Term
		}
	}
	return best
}

// WaitLeader waits for some node to report leadership.
func (c *Cluster) WaitLeader(d time.Duration) string {
	dl := time.Now().Add(d)
	for time.Now().Before(dl) {
		if l := c.Leader(); l != "" {
			return l
		}
		time.Sleep(2 * time.Millisecond)
	}
	return ""
}

// WaitLeaderAmong waits for a leader among the given ids.
func (c *Cluster) WaitLeaderAmong(ids []string, d time.Duration) string {
	dl := time.Now().Add(d)
	for time.Now().Before(dl) {
		for _, id := range ids {
			n := c.Node(id)
			if n != nil && n.IsUp() && n.R().Status().State == raft.Leader {
				return id
			}
		}
		time.Sleep(2 * time.Millisecond)
	}
	return ""
}

func (c *Cluster) UpIDs() []string {
	var out []string
	for _, id := range c.IDs() {
		if c.Node(id).IsUp() {
			out = append(out, id)
		}
	}
	sort.Strings(out)
	return out
}

// Bounce stops the node gracefully and restarts the SAME Raft object in-process (Stop + Restart), keeping
// the incarnation, its storages and its state machine.
func (n *Node) Bounce() error { return n.BounceAfter(0) }

// BounceAfter is Bounce with a pause between Stop() and Restart(): handlers that were running with the lock
// released when Stop() was called finish while the node is stopped.
func (n *Node) BounceAfter(pause time.Duration) error {
	n.mu.Lock()
	defer n.mu.Unlock()
	if !n.Up {
		return nil
	}
	n.cl.M.Emit(mon.Event{Kind: mon.KNote, Node: n.ID, Inc: n.incN, Str: "bounce: Stop()"})
	n.smu.Lock() // no sample may straddle the restart
	n.Raft.Stop()
	n.cl.M.Emit(mon.Event{Kind: mon.KNodeBounce, Node: n.ID, Inc: n.incN})
	if pause > 0 {
		time.Sleep(pause)
	}
	err := n.Raft.Restart()
	n.smu.Unlock()
	es := ""
	if err != nil {
		es = err.Error()
	}
	n.cl.M.Emit(mon.Event{Kind: mon.KNote, Node: n.ID, Inc: n.incN, Str: "bounce: Restart() " + es})
	return err
}
