package mon

import (
	"fmt"
	"sort"
	"strings"
	"sync"
	"time"
)

// Violation is one refutation found by an oracle.
type Violation struct {
	Props   []string `json:"props"`
	Sig     string   `json:"sig"`
	Msg     string   `json:"msg"`
	Seq     uint64   `json:"seq"`
	Node    string   `json:"node,omitempty"`
	Witness []uint64 `json:"witness,omitempty"` // seq numbers of the events involved
}

type logVer struct {
	seq      uint64
	lastIdx  uint64
	lastTerm uint64
}

type snapFile struct {
	id               int
	node             string
	inc              int
	idx              uint64
	term             uint64
	cfg              *Cfg
	via              uint64
	boot             bool
	size             int64
	hash             uint64
	closed           bool
	seqNew           uint64
	cnt, chn, lst    uint64
	decodable        bool
	tainted          bool // flagged by C10 label/content oracle
	seqClose         uint64
	mixOlderSameTerm bool // a chunk of an older snapshot, same term, was written into this (newer) file
	mixOther         bool // any other label mismatch between a chunk and the file it was written to
}

type fsmInst struct {
	id       int
	node     string
	inc      int
	last     uint64 // last applied op index handed to this instance since the last restore
	hasLast  bool
	cnt, chn uint64
	tainted  bool // restored from a snapshot already flagged by the C10 label/content oracle
	reported bool
}

type applyRec struct {
	idx, term, hash uint64
	cnt, chn        uint64 // canonical state after this entry
	seq             uint64
	node            string
	opID            string
}

type msgInfo struct {
	m         Msg
	sendSeq   uint64
	delivSeq  uint64
	replySeq  uint64
	floor     uint64
	muts      []mut
	stateSets []uint64
	delivered bool
	replied   bool // reply handed to the sender
	preLast   uint64
	// log snapshot of the receiver at deliver time for AE contract (indices prev+1.. covered by the request)
}

type mut struct {
	kind    string
	idx     uint64
	seq     uint64
	preTerm uint64 // term the shadow had at idx before a truncate
}

// NodeSh is the shadow of one node id across incarnations.
type NodeSh struct {
	ID   string
	Inc  int
	Live bool

	haveLog   bool
	base      Entry
	ents      []Entry
	chains    []uint64 // chain hash per entry (0 when unanchored)
	baseChain uint64
	anchored  bool
	kMark     uint64
	hist      []logVer

	pSet       bool
	pTerm      uint64
	pVote      string
	stateVer   uint64 // number of state.set / state.open events so far
	voteByTerm map[uint64]string
	voteSeq    map[uint64]uint64
	termFloor  uint64

	lastSample    *Sample
	lastSampleInc int
	lastSampleSeq uint64

	snapLabelIdx  uint64 // label of the newest completed snapshot on this node's disk
	snapLabelTerm uint64
	snapLast      *snapFile
	openSnap      map[int]*snapFile

	leaderOf map[uint64]bool
	role     string

	closedSnaps  []*snapFile
	starting     bool   // between node.new and node.start
	bootSnap     *Entry // label of the snapshot loaded while the current incarnation was being created
	logVer       uint64 // number of mutations of the disk-log shadow so far
	mixedInstall bool   // the recorded mixed-snapshot defect happened on this node (narrow taint)
}

func (n *NodeSh) lastIndex() uint64 {
	if len(n.ents) > 0 {
		return n.ents[len(n.ents)-1].Index
	}
	return n.base.Index
}
func (n *NodeSh) lastTerm() uint64 {
	if len(n.ents) > 0 {
		return n.ents[len(n.ents)-1].Term
	}
	return n.base.Term
}
func (n *NodeSh) entry(i uint64) *Entry {
	if i <= n.base.Index || i > n.lastIndex() {
		return nil
	}
	return &n.ents[i-n.base.Index-1]
}

// LogSummary returns a copy of the shadow (base + entries).
func (n *NodeSh) LogSummary() (Entry, []Entry) {
	return n.base, append([]Entry(nil), n.ents...)
}

// Monitor holds all oracle state.
type Monitor struct {
	mu       sync.Mutex
	seq      uint64
	Keep     bool // keep the full event log
	Events   []Event
	Viol     []Violation
	Nodes    map[string]*NodeSh
	Counts   map[string]int
	violSeen map[string]bool

	// C01 / C10 canonical applied sequence
	S     map[uint64]*applyRec
	canon []*applyRec

	// committed entries
	K      map[uint64]Entry
	KSeq   map[uint64]uint64
	KMax   uint64
	cfgSeq []Entry // configuration entries of K by index (built on demand)

	chainAt map[[2]uint64]uint64

	leaderByTerm map[uint64]string
	leaderSeq    map[uint64]uint64
	msgLeader    map[uint64]string

	msgs    map[uint64]*msgInfo
	insts   map[int]*fsmInst
	snaps   map[int]*snapFile
	sources []*snapFile // completed locally-taken snapshots

	StaticVoters  []string
	membershipOps int
	BecameLeader  []Event

	Ops      map[string]*Op // by op id: merged call+ret
	OpOrder  []string
	ackedSeq map[string]uint64

	// hooks for the scenario engine (called under the monitor lock; must not call back)
	OnEvent func(ev *Event)

	// C04 bookkeeping
	majChecked map[uint64]bool

	fatal []string

	// leader lease / read bookkeeping for signatures
	Phase string

	// Puppet mode: one real node, peers played by the harness, requests strictly sequential.
	start            time.Time
	evidenceNode     string
	staleCfgElection bool // the recorded membership defect happened in this run (narrow taint from then on)

	// step counters for bounded-progress checks (C15): completed exchanges per directed link, candidacy rounds
	LinkExch    map[[2]string]int
	rvRoundSeen map[string]bool
	RVRounds    int
	healSeq     uint64
	rvSendCount map[string]int

	Puppet bool
	// set once requests overlapped in a puppet case: exact before/after reasoning is off from then on
	concurrent bool
}

func New() *Monitor {
	return &Monitor{
		start:        time.Now(),
		LinkExch:     map[[2]string]int{},
		rvRoundSeen:  map[string]bool{},
		rvSendCount:  map[string]int{},
		Nodes:        map[string]*NodeSh{},
		Counts:       map[string]int{},
		violSeen:     map[string]bool{},
		S:            map[uint64]*applyRec{},
		K:            map[uint64]Entry{},
		KSeq:         map[uint64]uint64{},
		chainAt:      map[[2]uint64]uint64{},
		leaderByTerm: map[uint64]string{},
		leaderSeq:    map[uint64]uint64{},
		msgLeader:    map[uint64]string{},
		msgs:         map[uint64]*msgInfo{},
		insts:        map[int]*fsmInst{},
		snaps:        map[int]*snapFile{},
		Ops:          map[string]*Op{},
		ackedSeq:     map[string]uint64{},
		majChecked:   map[uint64]bool{},
	}
}

func (m *Monitor) node(id string) *NodeSh {
	n := m.Nodes[id]
	if n == nil {
		n = &NodeSh{ID: id, voteByTerm: map[uint64]string{}, voteSeq: map[uint64]uint64{}, openSnap: map[int]*snapFile{}, leaderOf: map[uint64]bool{}}
		m.Nodes[id] = n
	}
	return n
}

// Lock/Unlock let the harness read shadows consistently.
func (m *Monitor) Lock()   { m.mu.Lock() }
func (m *Monitor) Unlock() { m.mu.Unlock() }

// Seq returns a fresh logical timestamp without recording an event.
func (m *Monitor) Now() uint64 {
	m.mu.Lock()
	defer m.mu.Unlock()
	return m.seq
}

// LogVersion returns the number of mutations of a node's disk-log shadow so far.
func (m *Monitor) LogVersion(node string) uint64 {
	m.mu.Lock()
	defer m.mu.Unlock()
	return m.node(node).logVer
}

// StateVersion returns the number of term/vote storage events recorded for a node so far.
func (m *Monitor) StateVersion(node string) uint64 {
	m.mu.Lock()
	defer m.mu.Unlock()
	return m.node(node).stateVer
}

// TermFloor returns the largest term observed so far for a node id.
func (m *Monitor) TermFloor(node string) uint64 {
	m.mu.Lock()
	defer m.mu.Unlock()
	return m.node(node).termFloor
}

// Emit records an event: assigns its sequence number and feeds the oracles.
func (m *Monitor) Emit(ev Event) uint64 {
	m.mu.Lock()
	defer m.mu.Unlock()
	m.seq++
	ev.Seq = m.seq
	ev.W = int64(time.Since(m.start))
	m.feed(&ev)
	return ev.Seq
}

// Replay feeds a stored event log to a fresh monitor.
func Replay(events []Event) *Monitor {
	m := New()
	for i := range events {
		ev := events[i]
		m.seq = ev.Seq
		m.feed(&ev)
	}
	return m
}

func (m *Monitor) violate(ev *Event, props []string, sig, node, format string, args ...interface{}) {
	msg := fmt.Sprintf(format, args...)
	if node != "" {
		if n := m.Nodes[node]; n != nil && n.mixedInstall {
			for _, pre := range []string{"restore-content-mismatch", "probe-decision/", "replica-", "restore-unknown-bytes", "snapshot-not-newest", "discard-term-mismatch", "compact-beyond-snapshot", "discard-beyond-snapshot"} {
				if strings.HasPrefix(sig, pre) {
					sig += "/after-mixed-install"
					break
				}
			}
		}
	}
	if m.staleCfgElection {
		for _, pre := range []string{"commit-divergence", "committed-entry-truncated", "apply-divergence", "leader-incomplete", "log-matching", "not-on-voter-majority", "replica-", "discard-lost-committed"} {
			if strings.HasPrefix(sig, pre) && !strings.Contains(sig, "stale-configuration") {
				sig += "/after-stale-configuration-election"
				break
			}
		}
	}
	key := sig + "|" + node + "|" + msg
	if m.violSeen[key] {
		return
	}
	m.violSeen[key] = true
	if len(m.Viol) > 200 {
		return
	}
	v := Violation{Props: props, Sig: sig, Msg: msg, Node: node}
	if ev != nil {
		v.Seq = ev.Seq
		v.Witness = []uint64{ev.Seq}
	}
	m.Viol = append(m.Viol, v)
}

// AddViolation lets offline oracles add their findings.
func (m *Monitor) AddViolation(v Violation) {
	m.mu.Lock()
	defer m.mu.Unlock()
	key := v.Sig + "|" + v.Node + "|" + v.Msg
	if m.violSeen[key] {
		return
	}
	m.violSeen[key] = true
	m.Viol = append(m.Viol, v)
}

func (m *Monitor) feed(ev *Event) {
	if m.Keep {
		m.Events = append(m.Events, *ev)
	}
	m.Counts[ev.Kind]++
	switch ev.Kind {
	case KBoot:
		if ev.Cfg != nil {
			m.StaticVoters = ev.Cfg.Voters()
			sort.Strings(m.StaticVoters)
		}
	case KNodeNew:
		n := m.node(ev.Node)
		n.Inc = ev.Inc
		n.Live = true
		n.lastSample = nil
		n.starting = true
		n.bootSnap = nil
	case KNodeStart:
		n := m.node(ev.Node)
		n.starting = false
		// C14 / C11: a node that starts with a snapshot and a log that neither starts at the snapshot nor holds
		// its last entry will answer (last index/term, prev-entry checks, votes) unlike a node with the full
		// log and cannot be repaired by replication
		if ev.Str == "" && n.bootSnap != nil && n.haveLog && n.base.Index < n.bootSnap.Index {
			e := n.entry(n.bootSnap.Index)
			m.Counts["c14.boot_consistency_checks"]++
			if e == nil || e.Term != n.bootSnap.Term {
				have := "no entry there"
				if e != nil {
					have = fmt.Sprintf("an entry of term %d there", e.Term)
				}
				m.violate(ev, []string{"C14", "C11"}, "restart-log-inconsistent-with-snapshot", n.ID, "node %s started with snapshot (index %d, term %d) and a log (%d,%d] that has %s: an interrupted installation was not completed", n.ID, n.bootSnap.Index, n.bootSnap.Term, n.base.Index, n.lastIndex(), have)
			}
		}
	case KNodeBounce:
		// Stop + Restart on the same object: like a restart, indices may go back to the snapshot
		m.node(ev.Node).lastSample = nil
	case KNodeCrash, KNodeStop:
		n := m.node(ev.Node)
		n.Live = false
		n.role = ""
	case KLogOpen:
		m.onLogOpen(ev)
	case KLogAppend:
		m.onLogAppend(ev)
	case KLogTrunc:
		m.onLogTrunc(ev)
	case KLogCompact:
		m.onLogCompact(ev)
	case KLogDiscard:
		m.onLogDiscard(ev)
	case KStateSet:
		m.onStateSet(ev)
	case KStateOpen:
		m.onStateOpen(ev)
	case KSnapNew:
		m.onSnapNew(ev)
	case KSnapWrite:
		if f := m.snaps[ev.Inst]; f != nil {
			if end := ev.Num + int64(ev.Cnt); end > f.size {
				f.size = end
			}
			if mi := m.msgs[ev.Via]; mi != nil && mi.m.Kind == "IS" && (mi.m.LastIdx != f.idx || mi.m.LastTerm != f.term) {
				var creatorTerm uint64
				if cm := m.msgs[f.via]; cm != nil {
					creatorTerm = cm.m.Term
				}
				if mi.m.LastIdx < f.idx && mi.m.Term == creatorTerm {
					f.mixOlderSameTerm = true
				} else {
					f.mixOther = true
				}
			}
		}
	case KSnapClose:
		m.onSnapClose(ev)
	case KSnapDiscard:
		if f := m.snaps[ev.Inst]; f != nil {
			delete(m.node(f.node).openSnap, f.id)
		}
	case KSnapOpen:
		m.onSnapOpen(ev)
	case KApply:
		m.onApply(ev)
	case KRestore:
		m.onRestore(ev)
	case KSend:
		m.onSend(ev)
	case KDeliver:
		m.onDeliver(ev)
	case KReply:
		m.onReply(ev)
	case KReplied:
		if mi := m.msgs[ev.Msg.ID]; mi != nil {
			mi.replied = true
		}
		if ev.Msg.Kind != "RV" {
			m.LinkExch[[2]string{ev.Msg.From, ev.Msg.To}]++
		}
	case KSample:
		m.onSample(ev)
	case KCall:
		op := *ev.Op
		op.Call = ev.Seq
		m.Ops[op.ID] = &op
		m.OpOrder = append(m.OpOrder, op.ID)
		if op.Type == "ADD" || op.Type == "REM" {
			m.membershipOps++
		}
	case KRet:
		m.onRet(ev)
	case KFatal:
		m.fatal = append(m.fatal, ev.Str)
		node := ev.Node
		if node == "" {
			node = "?"
		}
		sig := "fatal"
		if n := m.Nodes[node]; n != nil && n.mixedInstall && strings.Contains(ev.Str, "failed to restore state machine with snapshot") {
			// the state machine refused the file the recorded mixed-snapshot defect produced on this node
			sig = "fatal/after-mixed-install"
		}
		m.violate(ev, []string{"C14", "C18"}, sig, node, "node %s aborted the process: %s", node, ev.Str)
	case KPhase:
		m.Phase = ev.Str
		if ev.Str == "heal" {
			m.healSeq = ev.Seq
		}
		if ev.Str == "final-ok" && m.healSeq != 0 {
			// C18 (no call blocks forever), restated for request handlers: the cluster has converged after the heal and
			// acknowledged a fresh write; a handler that was entered before the heal on an incarnation that is still
			// running has had every chance to finish
			ids := make([]uint64, 0)
			for id, mi := range m.msgs {
				if mi.delivered && mi.replySeq == 0 && mi.delivSeq < m.healSeq {
					if n := m.Nodes[mi.m.To]; n != nil && n.Live && n.Inc == mi.m.ToInc {
						ids = append(ids, id)
					}
				}
			}
			sort.Slice(ids, func(i, j int) bool { return ids[i] < ids[j] })
			m.Counts["c18.handler_checks"]++
			for _, id := range ids {
				mi := m.msgs[id]
				m.violate(ev, []string{"C18"}, "handler-never-returned", mi.m.To, "node %s: the %s handler entered at seq %d (request of %s, term %d) has not returned although the faults stopped at seq %d, the cluster converged and acknowledged a fresh write", mi.m.To, mi.m.Kind, mi.delivSeq, mi.m.From, mi.m.Term, m.healSeq)
			}
		}
	case KPuppet:
		m.Puppet = true
	case KNote:
		if ev.Str == "concurrent-requests" {
			m.concurrent = true
		}
	case KWorldCommit:
		// entries the scripted world declares committed (announced by a puppet leader)
		for _, e := range ev.Ents {
			if _, ok := m.K[e.Index]; !ok {
				m.K[e.Index] = e
				m.KSeq[e.Index] = ev.Seq
			}
		}
	case KWorldSnap:
		// a snapshot a scripted sender has: a legitimate source for installs
		m.sources = append(m.sources, &snapFile{id: -len(m.sources) - 1, node: ev.Node, idx: ev.Idx, term: ev.Term, size: ev.Num, hash: ev.Hash, closed: true, cnt: ev.Cnt, chn: ev.Chn, decodable: true})
	case KProbe:
		m.onProbe(ev)
	}
	if m.OnEvent != nil {
		m.OnEvent(ev)
	}
}

// ---------------------------------------------------------------- log shadow

func (m *Monitor) recomputeChains(n *NodeSh) {
	n.chains = n.chains[:0]
	c, ok := m.chainAt[[2]uint64{n.base.Index, n.base.Term}]
	if n.base.Index == 0 {
		c, ok = 0, true
	}
	n.anchored = ok
	n.baseChain = c
	prev := c
	for i := range n.ents {
		e := &n.ents[i]
		if n.anchored {
			prev = Mix(prev, e.Index, e.Term, uint64(e.Type), e.Hash)
			n.chains = append(n.chains, prev)
		} else {
			n.chains = append(n.chains, 0)
		}
	}
}

func (m *Monitor) pushHist(n *NodeSh, seq uint64) {
	n.logVer++
	n.hist = append(n.hist, logVer{seq, n.lastIndex(), n.lastTerm()})
	if len(n.hist) > 4096 {
		n.hist = append([]logVer(nil), n.hist[2048:]...)
	}
}

func (m *Monitor) onLogOpen(ev *Event) {
	n := m.node(ev.Node)
	if n.haveLog {
		// The reloaded log must contain everything whose write had returned.
		ok := true
		why := ""
		if ev.Idx != n.base.Index || (ev.Term != n.base.Term && n.base.Index != 0) {
			ok, why = false, fmt.Sprintf("base (%d,%d) reloaded as (%d,%d)", n.base.Index, n.base.Term, ev.Idx, ev.Term)
		}
		if ok && len(ev.Ents) < len(n.ents) {
			ok, why = false, fmt.Sprintf("%d entries on disk before the crash, %d after reopen", len(n.ents), len(ev.Ents))
		}
		if ok {
			for i := range n.ents {
				a, b := n.ents[i], ev.Ents[i]
				if a.Index != b.Index || a.Term != b.Term || a.Type != b.Type || a.Hash != b.Hash {
					ok, why = false, fmt.Sprintf("entry %d reloaded as (i=%d,t=%d,y=%d) was (i=%d,t=%d,y=%d)", a.Index, b.Index, b.Term, b.Type, a.Index, a.Term, a.Type)
					break
				}
			}
		}
		if !ok {
			props := []string{"C04", "C12", "C14", "C06"}
			if n.base.Index > 0 {
				// the log had been compacted or replaced by a snapshot installation: what that left on disk is not what the node held
				props = append(props, "C11")
			}
			m.violate(ev, props, "log-not-durable", n.ID, "node %s inc %d: reopened log differs from completed operations: %s", n.ID, ev.Inc, why)
		}
	}
	keepTerm, trueTerm := n.haveLog && ev.Idx == n.base.Index && ev.Term != n.base.Term && n.base.Index != 0, n.base.Term
	n.haveLog = true
	n.base = Entry{Index: ev.Idx, Term: ev.Term}
	if keepTerm {
		// the reloaded boundary term is wrong (flagged above): the shadow keeps the truth so that later
		// vote / boundary decisions are judged against what a node holding the full log would know
		n.base.Term = trueTerm
	}
	n.ents = append([]Entry(nil), ev.Ents...)
	n.bootSnap = nil
	if n.kMark > n.lastIndex() {
		n.kMark = n.lastIndex()
	}
	m.recomputeChains(n)
	// entries that were not in the shadow before (torn append completed on disk) enter the matching map
	for i := range n.ents {
		m.checkChain(ev, n, i)
	}
	m.pushHist(n, ev.Seq)
}

func (m *Monitor) checkChain(ev *Event, n *NodeSh, i int) {
	if !n.anchored {
		return
	}
	e := n.ents[i]
	key := [2]uint64{e.Index, e.Term}
	if c, ok := m.chainAt[key]; ok {
		if c != n.chains[i] {
			m.violate(ev, []string{"C06"}, "log-matching", n.ID, "node %s holds entry (index %d, term %d) whose prefix differs from another node's log with the same entry", n.ID, e.Index, e.Term)
		}
	} else {
		m.chainAt[key] = n.chains[i]
	}
}

func (m *Monitor) onLogAppend(ev *Event) {
	n := m.node(ev.Node)
	if !n.haveLog {
		n.haveLog = true
	}
	var mi *msgInfo
	if ev.Via != 0 {
		mi = m.msgs[ev.Via]
	}
	// becameLeader: single-entry append of a no-op.
	if ev.Flag && len(ev.Ents) == 1 && ev.Ents[0].Type == 0 {
		m.onBecameLeader(ev, n, ev.Ents[0].Term)
	}
	for _, e := range ev.Ents {
		if e.Index != n.lastIndex()+1 {
			m.violate(ev, []string{"C06"}, "append-gap", n.ID, "node %s appended index %d after last index %d", n.ID, e.Index, n.lastIndex())
			// resynchronise the shadow on what the log now says
		}
		if e.Term < n.lastTerm() {
			// Not demanded by any property as stated (a single-voter cluster leads in term 0 after a
			// bootstrap entry of term 1): counted, not alarmed on.
			m.Counts["log.term_decrease_appends"]++
		}
		n.ents = append(n.ents, e)
		var c uint64
		if n.anchored {
			prev := n.baseChain
			if len(n.chains) > 0 {
				prev = n.chains[len(n.chains)-1]
			}
			c = Mix(prev, e.Index, e.Term, uint64(e.Type), e.Hash)
		}
		n.chains = append(n.chains, c)
		m.checkChain(ev, n, len(n.ents)-1)
		if mi != nil {
			mi.muts = append(mi.muts, mut{kind: "append", idx: e.Index, seq: ev.Seq})
		}
	}
	m.pushHist(n, ev.Seq)
}

func (m *Monitor) onBecameLeader(ev *Event, n *NodeSh, term uint64) {
	m.Counts["becameLeader"]++
	m.BecameLeader = append(m.BecameLeader, *ev)
	if prev, ok := m.leaderByTerm[term]; ok && prev != n.ID {
		m.violate(ev, []string{"C02"}, "two-leaders", "", "term %d: %s became leader (seq %d) and %s became leader (seq %d)", term, prev, m.leaderSeq[term], n.ID, ev.Seq)
	} else if !ok {
		m.leaderByTerm[term] = n.ID
		m.leaderSeq[term] = ev.Seq
	}
	if other, ok := m.msgLeader[term]; ok && other != n.ID {
		m.violate(ev, []string{"C02"}, "two-leaders", "", "term %d: %s became leader but requests of that term name %s", term, n.ID, other)
	}
	n.leaderOf[term] = true
	// C09 (3): the real votes delivered to the new leader, plus its own, are a majority of the VOTERS of its configuration
	if ev.St != nil && ev.St.Cfg != nil && !m.Puppet {
		voters := ev.St.Cfg.Voters()
		got := map[string]bool{n.ID: true}
		for _, mi := range m.msgs {
			if mi.m.Kind == "RV" && !mi.m.Prevote && mi.m.From == n.ID && mi.m.Term == term && mi.m.ROK && mi.replied {
				got[mi.m.To] = true
			}
		}
		cnt := 0
		for _, v := range voters {
			if got[v] {
				cnt++
			}
		}
		m.Counts["c09.election_quorum_checks"]++
		// A node that its own latest configuration removes (or demotes) may still lead while that configuration is
		// not committed and the last committed one has it as a voter: it may be the only holder of the configuration
		// entry, so nobody else can be elected (Raft thesis 4.2.2). Its own vote does not count (it is not among the
		// voters counted below) and it is elected by a majority of the voters of the configuration it uses.
		transitional := !ev.St.Cfg.Members[n.ID] && ev.St.CCfg != nil && ev.St.CCfg.Index != ev.St.Cfg.Index && ev.St.CCfg.Members[n.ID]
		if transitional {
			m.Counts["c09.leader_removed_by_its_uncommitted_configuration"]++
		}
		if !ev.St.Cfg.Members[n.ID] && !transitional {
			m.violate(ev, []string{"C09", "C02"}, "non-voter-became-leader", n.ID, "%s became leader of term %d although it is not a voter in its own configuration %s (nor a voter of its committed configuration with that change still uncommitted)", n.ID, term, ev.St.Cfg.Canon())
		} else if cnt*2 <= len(voters) {
			var gl []string
			for g := range got {
				gl = append(gl, g)
			}
			sort.Strings(gl)
			m.violate(ev, []string{"C09", "C02"}, "elected-without-voter-majority", n.ID, "%s became leader of term %d with the votes of %v: %d of the %d voters of its configuration %s", n.ID, term, gl, cnt, len(voters), ev.St.Cfg.Canon())
		}
	}
	// C07: every committed entry is in the new leader's log (pre-append shadow).
	// The property speaks of entries committed in EARLIER terms. A node can enter the leader state of term T late -
	// it collected its majority in T, but a leader of a later term was elected and committed entries before the
	// node got to process the replies. Entries of a term >= T, and entries that were first seen committed after a
	// leader of a later term had started, are not required of it.
	cutoff := uint64(0)
	for t, sq := range m.leaderSeq {
		if t > term && (cutoff == 0 || sq < cutoff) {
			cutoff = sq
		}
	}
	missing := 0
	var firstMissing uint64
	for idx, ke := range m.K {
		if ke.Term >= term || (cutoff != 0 && m.KSeq[idx] >= cutoff) {
			continue
		}
		if idx <= n.base.Index {
			if idx == n.base.Index && ke.Term != n.base.Term {
				missing++
				if firstMissing == 0 || idx < firstMissing {
					firstMissing = idx
				}
			}
			continue
		}
		e := n.entry(idx)
		if e == nil || e.Term != ke.Term || e.Hash != ke.Hash || e.Type != ke.Type {
			missing++
			if firstMissing == 0 || idx < firstMissing {
				firstMissing = idx
			}
		}
	}
	if missing > 0 {
		ke := m.K[firstMissing]
		have := "nothing"
		if e := n.entry(firstMissing); e != nil {
			have = fmt.Sprintf("(term %d)", e.Term)
		}
		sig := "leader-incomplete"
		// cause signature for the membership defect: the new leader runs under a configuration older than the newest committed one
		if ev.St != nil && ev.St.Cfg != nil {
			// recorded defect: the new leader was elected under a configuration that is two or more committed
			// configurations old (single-server changes only keep ADJACENT configurations' majorities overlapping)
			if m.cfgStepsBehind(ev.St.Cfg.Index) >= 2 {
				sig = "leader-incomplete/stale-configuration"
				m.staleCfgElection = true
			}
		}
		m.violate(ev, []string{"C07"}, sig, n.ID, "%s became leader of term %d without %d committed entries; first: index %d committed as (term %d, committed at seq %d), leader has %s", n.ID, term, missing, firstMissing, ke.Term, m.KSeq[firstMissing], have)
	}
}

func (m *Monitor) newestCommittedCfgIndex() uint64 {
	var best uint64
	for idx, e := range m.K {
		if e.Type == 2 && idx > best {
			best = idx
		}
	}
	return best
}

func (m *Monitor) onLogTrunc(ev *Event) {
	n := m.node(ev.Node)
	idx := ev.Idx
	if idx <= n.base.Index || idx > n.lastIndex() {
		m.violate(ev, []string{"C06"}, "truncate-out-of-range", n.ID, "node %s truncated at %d, shadow holds (%d,%d]", n.ID, idx, n.base.Index, n.lastIndex())
		return
	}
	pre := n.entry(idx).Term
	// committed entries must never be removed
	for j := idx; j <= n.lastIndex(); j++ {
		if ke, ok := m.K[j]; ok {
			e := n.entry(j)
			if e.Term == ke.Term {
				// a committed (acknowledged) entry leaves a disk it was stored on: C06/C07, and C04's "never lost"
				props := []string{"C06", "C07", "C04"}
				m.violate(ev, props, "committed-entry-truncated", n.ID, "node %s truncated at %d and removed committed entry (index %d, term %d)", n.ID, idx, j, ke.Term)
				break
			}
		}
	}
	if ev.Via != 0 {
		if mi := m.msgs[ev.Via]; mi != nil {
			mi.muts = append(mi.muts, mut{kind: "trunc", idx: idx, seq: ev.Seq, preTerm: pre})
		}
	}
	cut := idx - n.base.Index - 1
	n.ents = n.ents[:cut]
	n.chains = n.chains[:cut]
	if n.kMark >= idx {
		n.kMark = idx - 1
	}
	m.pushHist(n, ev.Seq)
}

func (n *NodeSh) lastSampleTerm() uint64 {
	if n.lastSample != nil {
		return n.lastSample.Term
	}
	return 0
}

func (m *Monitor) onLogCompact(ev *Event) {
	n := m.node(ev.Node)
	idx := ev.Idx
	e := n.entry(idx)
	if e == nil {
		if idx == n.base.Index {
			return
		}
		m.violate(ev, []string{"C11"}, "compact-out-of-range", n.ID, "node %s compacted at %d, shadow holds (%d,%d]", n.ID, idx, n.base.Index, n.lastIndex())
		return
	}
	if idx > n.maxSnapLabel() {
		m.violate(ev, []string{"C11"}, "compact-beyond-snapshot", n.ID, "node %s compacted its log through %d but no completed snapshot on it covers more than %d", n.ID, idx, n.maxSnapLabel())
	}
	cut := idx - n.base.Index
	nb := Entry{Index: e.Index, Term: e.Term}
	bc := uint64(0)
	if n.anchored {
		bc = n.chains[cut-1]
	}
	n.base = nb
	n.baseChain = bc
	n.ents = append([]Entry(nil), n.ents[cut:]...)
	n.chains = append([]uint64(nil), n.chains[cut:]...)
	// the wrapper read back what the log says after the operation
	if ev.Flag {
		if ev.Cnt != uint64(len(n.ents)) || ev.Lst != n.lastIndex() || ev.Term != n.base.Term {
			m.violate(ev, []string{"C11"}, "compact-result", n.ID, "node %s after Compact(%d): log reports base term %d size %d last %d, expected base term %d size %d last %d", n.ID, idx, ev.Term, ev.Cnt, ev.Lst, n.base.Term, len(n.ents), n.lastIndex())
		}
	}
	m.pushHist(n, ev.Seq)
}

func (m *Monitor) onLogDiscard(ev *Event) {
	n := m.node(ev.Node)
	// entries beyond the new base that are committed must not be lost
	for j := ev.Idx + 1; j <= n.lastIndex(); j++ {
		if ke, ok := m.K[j]; ok {
			if e := n.entry(j); e != nil && e.Term == ke.Term {
				m.violate(ev, []string{"C11"}, "discard-lost-committed", n.ID, "node %s discarded its log to (%d,%d) and lost committed entry (index %d, term %d)", n.ID, ev.Idx, ev.Term, j, ke.Term)
				break
			}
		}
	}
	if n.starting {
		// boot-time repair of an interrupted installation: only a log that does NOT hold the snapshot's last entry may
		// be replaced; a log that holds it (same term) is consistent, and what follows it is durable, acknowledged data
		m.Counts["c14.boot_discards"]++
		if e := n.entry(ev.Idx); e != nil && e.Term == ev.Term && n.lastIndex() > ev.Idx {
			m.violate(ev, []string{"C14", "C11", "C04", "C07"}, "restart-discarded-consistent-log", n.ID, "node %s replaced its log by the snapshot boundary (%d,%d) while starting although the log held that entry and %d durable entries after it (up to index %d)", n.ID, ev.Idx, ev.Term, n.lastIndex()-ev.Idx, n.lastIndex())
		}
	}
	if ev.Idx > n.maxSnapLabel() {
		m.violate(ev, []string{"C11"}, "discard-beyond-snapshot", n.ID, "node %s discarded its log to %d but no completed snapshot on it covers more than %d", n.ID, ev.Idx, n.maxSnapLabel())
	}
	n.haveLog = true
	n.base = Entry{Index: ev.Idx, Term: ev.Term}
	for _, f := range n.closedSnaps {
		if f.idx == ev.Idx && f.term != ev.Term {
			m.violate(ev, []string{"C11"}, "discard-term-mismatch", n.ID, "node %s reset its log to (index %d, term %d) but the snapshot it installed says last included term %d: last-term answers now differ from a node holding the full log", n.ID, ev.Idx, ev.Term, f.term)
			n.base.Term = f.term // the shadow keeps the truth
			break
		}
	}
	n.ents = nil
	if n.kMark > ev.Idx {
		n.kMark = ev.Idx
	}
	m.recomputeChains(n)
	m.pushHist(n, ev.Seq)
}

// markCommitted records that entries <= upto of n's log are committed.
func (m *Monitor) markCommitted(ev *Event, n *NodeSh, upto uint64, how string) {
	if !n.haveLog {
		return
	}
	m.evidenceNode = n.ID
	if how != "leaderCommit" {
		// followers report what a leader told them: the majority rule is evaluated on leader evidence only
		m.evidenceNode = ""
	}
	if upto > n.lastIndex() {
		upto = n.lastIndex()
	}
	from := n.kMark + 1
	if from <= n.base.Index {
		from = n.base.Index + 1
	}
	for j := from; j <= upto; j++ {
		e := *n.entry(j)
		if ke, ok := m.K[j]; ok {
			if ke.Term != e.Term || ke.Hash != e.Hash || ke.Type != e.Type {
				props := []string{"C07", "C06"}
				if e.Type == 1 || ke.Type == 1 {
					// two different operations are committed at one index: one of them was acknowledged and is lost
					props = append(props, "C01", "C04")
				}
				m.violate(ev, props, "commit-divergence", n.ID, "index %d committed as (term %d) [seq %d] but node %s reports (term %d) committed via %s", j, ke.Term, m.KSeq[j], n.ID, e.Term, how)
			}
		} else {
			m.K[j] = e
			m.KSeq[j] = ev.Seq
			if j > m.KMax {
				m.KMax = j
			}
			m.checkMajority(ev, j, e, "commit("+how+")")
		}
	}
	if upto > n.kMark {
		n.kMark = upto
	}
}

// checkMajority: C04 (i) — at the moment an entry is first known committed/applied/acknowledged,
// a majority of the voters has it in its disk log.
func (m *Monitor) checkMajority(ev *Event, idx uint64, e Entry, how string) {
	if m.majChecked[idx] {
		return
	}
	m.majChecked[idx] = true
	voters := m.StaticVoters
	if m.Puppet {
		return
	}
	prop := "C04"
	if m.membershipOps > 0 {
		// C09 (4): under membership changes the voters are those of the configuration in force at the node
		// that produced the commit evidence (a leader uses the newest configuration in its log)
		prop = "C09"
		voters = nil
		cn := m.Nodes[m.evidenceNode]
		if cn == nil {
			return
		}
		// Which configuration was in force at the leader when it decided is not observable exactly (this
		// implementation adopts additions when appended and removals when applied). The entry must be on a
		// majority of the voters of at least one configuration the leader can have been using: the newest or
		// the second newest in its log, or the configuration / committed configuration it last reported.
		var cands []*Cfg
		seen := 0
		for i := len(cn.ents) - 1; i >= 0 && seen < 2; i-- {
			if cn.ents[i].Type == 2 && cn.ents[i].Cfg != nil {
				cands = append(cands, cn.ents[i].Cfg)
				seen++
			}
		}
		if cn.snapLast != nil && cn.snapLast.cfg != nil {
			cands = append(cands, cn.snapLast.cfg)
		}
		if cn.lastSample != nil {
			if cn.lastSample.Cfg != nil {
				cands = append(cands, cn.lastSample.Cfg)
			}
			if cn.lastSample.CCfg != nil {
				cands = append(cands, cn.lastSample.CCfg)
			}
		}
		if len(cands) == 0 {
			return
		}
		m.Counts["c09.commit_majority_checks"]++
		best := ""
		for _, c := range cands {
			vs := c.Voters()
			have := 0
			for _, id := range vs {
				if sn := m.Nodes[id]; sn != nil && sn.haveLog {
					if idx <= sn.base.Index {
						have++
					} else if se := sn.entry(idx); se != nil && se.Term == e.Term && se.Hash == e.Hash {
						have++
					}
				}
			}
			if have*2 > len(vs) {
				return
			}
			sort.Strings(vs)
			best = fmt.Sprintf("%d of the %d voters %v", have, len(vs), vs)
		}
		m.violate(ev, []string{"C09"}, "not-on-voter-majority", "", "entry (index %d, term %d) became %s at %s although it is not stored by a majority of the voters of any configuration that leader can have been using (e.g. %s)", idx, e.Term, how, cn.ID, best)
		return
	}
	if len(voters) == 0 {
		return
	}
	have := 0
	var holders []string
	for _, id := range voters {
		n := m.Nodes[id]
		if n == nil || !n.haveLog {
			continue
		}
		if idx <= n.base.Index {
			have++ // compacted away: it was there
			holders = append(holders, id)
			continue
		}
		if se := n.entry(idx); se != nil && se.Term == e.Term && se.Hash == e.Hash {
			have++
			holders = append(holders, id)
		}
	}
	m.Counts["c04.majority_checks"]++
	if have*2 <= len(voters) {
		m.violate(ev, []string{prop}, "not-on-majority", "", "entry (index %d, term %d) became %s while stored on the disks of %v only (%d of the %d voters %v)", idx, e.Term, how, holders, have, len(voters), voters)
	}
}

// ---------------------------------------------------------------- term / vote

func (m *Monitor) onStateSet(ev *Event) {
	n := m.node(ev.Node)
	n.stateVer++
	term, vote := ev.Term, ev.Str
	if n.pSet && term < n.pTerm {
		m.violate(ev, []string{"C08"}, "persisted-term-decreased", n.ID, "node %s persisted term %d after term %d", n.ID, term, n.pTerm)
	}
	var mi *msgInfo
	if ev.Via != 0 {
		mi = m.msgs[ev.Via]
	}
	if mi != nil {
		mi.stateSets = append(mi.stateSets, ev.Seq)
		if mi.m.Kind == "RV" && mi.m.Prevote {
			m.violate(ev, []string{"C08"}, "prevote-changed-state", n.ID, "node %s persisted (term %d, vote %q) while handling a prevote request from %s", n.ID, term, vote, mi.m.From)
		}
	}
	if vote != "" {
		if prev := n.voteByTerm[term]; prev != "" && prev != vote {
			sig := "two-votes-in-term"
			m.violate(ev, []string{"C08", "C02"}, sig, n.ID, "node %s voted for %s in term %d (seq %d) and now for %s", n.ID, prev, term, n.voteSeq[term], vote)
		} else if prev == "" {
			n.voteByTerm[term] = vote
			n.voteSeq[term] = ev.Seq
		}
		// C08 (3): a real vote goes only to a candidate whose log is at least as up to date.
		if mi != nil && mi.m.Kind == "RV" && !mi.m.Prevote && vote == mi.m.Leader && n.haveLog {
			lt, li := n.lastTerm(), n.lastIndex()
			m.Counts["c08.grant_checks"]++
			if mi.m.LastTerm < lt || (mi.m.LastTerm == lt && mi.m.LastIdx < li) {
				m.violate(ev, []string{"C08", "C07"}, "vote-for-stale-log", n.ID, "node %s (last index %d, last term %d) voted in term %d for %s whose log ends at (index %d, term %d)", n.ID, li, lt, term, vote, mi.m.LastIdx, mi.m.LastTerm)
			}
		}
	}
	n.pSet, n.pTerm, n.pVote = true, term, vote
	if term > n.termFloor {
		n.termFloor = term
	}
}

func (m *Monitor) onStateOpen(ev *Event) {
	n := m.node(ev.Node)
	n.stateVer++
	if n.pSet {
		if ev.Term != n.pTerm || ev.Str != n.pVote {
			m.violate(ev, []string{"C08", "C13"}, "state-not-durable", n.ID, "node %s inc %d reopened term/vote as (%d,%q), last completed write was (%d,%q)", n.ID, ev.Inc, ev.Term, ev.Str, n.pTerm, n.pVote)
		}
	} else if ev.Term != 0 || ev.Str != "" {
		n.pSet, n.pTerm, n.pVote = true, ev.Term, ev.Str
	}
}

// ---------------------------------------------------------------- snapshots

func (m *Monitor) onSnapNew(ev *Event) {
	f := &snapFile{id: ev.Inst, node: ev.Node, inc: ev.Inc, idx: ev.Idx, term: ev.Term, cfg: ev.Cfg, via: ev.Via, seqNew: ev.Seq}
	m.snaps[f.id] = f
	m.node(ev.Node).openSnap[f.id] = f
}

// canonAt returns the canonical state (count, chain, last op index) after all operations with index <= idx.
func (m *Monitor) canonAt(idx uint64) (cnt, chn, last uint64) {
	// canon is sorted by index
	i := sort.Search(len(m.canon), func(i int) bool { return m.canon[i].idx > idx })
	if i == 0 {
		return 0, 0, 0
	}
	r := m.canon[i-1]
	return r.cnt, r.chn, r.idx
}

func (m *Monitor) committedCfgAt(idx uint64) *Cfg {
	var best *Entry
	for i, e := range m.K {
		if e.Type == 2 && i <= idx {
			if best == nil || i > best.Index {
				ee := e
				best = &ee
			}
		}
	}
	if best == nil {
		return nil
	}
	return best.Cfg
}

func (m *Monitor) onSnapClose(ev *Event) {
	f := m.snaps[ev.Inst]
	if f == nil {
		return
	}
	n := m.node(f.node)
	delete(n.openSnap, f.id)
	f.closed = true
	f.seqClose = ev.Seq
	f.size = ev.Num
	f.hash = ev.Hash
	f.cnt, f.chn, f.lst, f.decodable = ev.Cnt, ev.Chn, ev.Lst, ev.Flag
	// the file-backed storage orders snapshots by the time they were created: the node's newest snapshot
	// is the completed one that was created last
	if n.snapLast == nil || f.seqNew > n.snapLast.seqNew {
		n.snapLabelIdx, n.snapLabelTerm = f.idx, f.term
		n.snapLast = f
	}
	n.closedSnaps = append(n.closedSnaps, f)
	if f.via == 0 {
		// locally taken: label = content (C10 (1))
		m.Counts["c10.local_snapshots"]++
		// (not in puppet mode: the canonical history is built from observed applies, and operations that reached the
		// one real node inside a snapshot of the scripted world were never applied by anybody)
		if f.decodable && !m.Puppet {
			cc, ch, cl := m.canonAt(f.idx)
			if f.cnt != cc || f.chn != ch {
				sig := "snapshot-content-mismatch"
				if f.cnt > cc {
					sig = "snapshot-label-behind-content"
				} else if f.cnt < cc {
					sig = "snapshot-label-ahead-of-content"
				}
				f.tainted = true
				m.violate(ev, []string{"C10"}, sig, f.node, "node %s snapshot labelled index %d holds %d operations (last op index %d); the committed history up to %d has %d (last op index %d)", f.node, f.idx, f.cnt, f.lst, f.idx, cc, cl)
			}
		}
		// label term must be the term of that entry
		if ke, ok := m.K[f.idx]; ok && ke.Term != f.term {
			m.violate(ev, []string{"C10"}, "snapshot-label-term", f.node, "node %s snapshot label (index %d, term %d) but the committed entry has term %d", f.node, f.idx, f.term, ke.Term)
		}
		want := m.committedCfgAt(f.idx)
		// the node's own log knows the configuration entries up to the label even before commit evidence
		// for them has been recorded
		for i := len(n.ents) - 1; i >= 0; i-- {
			if e := n.ents[i]; e.Index <= f.idx && e.Type == 2 && e.Cfg != nil {
				if want == nil || e.Cfg.Index > want.Index {
					want = e.Cfg
				}
				break
			}
		}
		if want != nil && f.cfg != nil && !want.Equal(f.cfg) {
			m.violate(ev, []string{"C10", "C09"}, "snapshot-configuration", f.node, "node %s snapshot at %d carries configuration index %d, committed configuration at that point has index %d", f.node, f.idx, f.cfg.Index, want.Index)
		}
		m.sources = append(m.sources, f)
	} else {
		// installed: must equal a snapshot some sender had (C11 (1))
		m.Counts["c11.installed_snapshots"]++
		mi := m.msgs[f.via]
		_ = mi
		matched, sameLabel := false, false
		var src *snapFile
		for _, s := range m.sources {
			if s.idx == f.idx && s.term == f.term {
				sameLabel = true
				if s.hash == f.hash && s.size == f.size {
					matched = true
					src = s
					break
				}
			}
		}
		if !matched {
			why := "no sender snapshot has that label"
			if sameLabel {
				why = "bytes differ from the sender's snapshot with that label"
			}
			sig := "installed-snapshot-differs"
			if f.mixOlderSameTerm && !f.mixOther {
				// cause signature of the recorded defect: within one term, a request for an older snapshot is
				// appended to the partially received file of a newer one
				sig += "/older-snapshot-chunk-into-newer-file"
				why += "; a chunk of an older snapshot (same term) was written into the file created for this label"
				n.mixedInstall = true
			}
			f.tainted = true
			m.violate(ev, []string{"C11"}, sig, f.node, "node %s installed snapshot (index %d, term %d, %d bytes): %s", f.node, f.idx, f.term, f.size, why)
		} else if src.tainted {
			f.tainted = true
		}
	}
}

func (m *Monitor) onSnapOpen(ev *Event) {
	n := m.node(ev.Node)
	// ev.Cnt = logical time just before the storage was asked.
	if !ev.Flag {
		for _, f := range n.closedSnaps {
			if f.seqClose <= ev.Cnt {
				m.violate(ev, []string{"C13", "C11"}, "snapshot-lost", n.ID, "node %s: SnapshotFile() returned nothing although snapshot (index %d) was completed", n.ID, f.idx)
				break
			}
		}
		return
	}
	if len(n.closedSnaps) == 0 {
		return
	}
	// never a partial or unknown snapshot: the returned one must be byte-identical to a completed one
	known := false
	for _, f := range n.closedSnaps {
		if ev.Idx == f.idx && ev.Term == f.term && ev.Hash == f.hash && ev.Num == f.size {
			known = true
			break
		}
	}
	if !known {
		m.violate(ev, []string{"C13", "C11", "C10"}, "snapshot-unknown", n.ID, "node %s: SnapshotFile() returned (index %d, term %d, %d bytes) which is no snapshot completed on that node", n.ID, ev.Idx, ev.Term, ev.Num)
	}
	if n.starting {
		n.bootSnap = &Entry{Index: ev.Idx, Term: ev.Term}
	}
	// the snapshot a node (re)loads must cover everything its log no longer holds
	if n.haveLog && ev.Idx < n.base.Index {
		m.violate(ev, []string{"C11", "C14"}, "snapshot-behind-log", n.ID, "node %s: SnapshotFile() returned the snapshot labelled %d but its log has been compacted through %d: entries %d..%d are gone", n.ID, ev.Idx, n.base.Index, ev.Idx+1, n.base.Index)
	}
}

// ---------------------------------------------------------------- state machine

func (m *Monitor) inst(ev *Event) *fsmInst {
	in := m.insts[ev.Inst]
	if in == nil {
		in = &fsmInst{id: ev.Inst, node: ev.Node, inc: ev.Inc}
		m.insts[ev.Inst] = in
	}
	return in
}

func (m *Monitor) onApply(ev *Event) {
	in := m.inst(ev)
	n := m.node(ev.Node)
	// C01 second sentence
	if in.hasLast && ev.Idx <= in.last {
		m.violate(ev, []string{"C01"}, "apply-order", ev.Node, "state machine of %s (instance %d) was handed index %d after index %d", ev.Node, in.id, ev.Idx, in.last)
	}
	in.last, in.hasLast = ev.Idx, true
	in.cnt, in.chn = ev.Cnt, ev.Chn
	rec := m.S[ev.Idx]
	if rec != nil {
		if rec.term != ev.Term || rec.hash != ev.Hash {
			m.violate(ev, []string{"C01"}, "apply-divergence", "", "index %d applied as (term %d, op %s) on %s [seq %d] and as (term %d, op %s) on %s", ev.Idx, rec.term, rec.opID, rec.node, rec.seq, ev.Term, ev.Str, ev.Node)
			return
		}
	} else {
		if len(m.canon) > 0 && m.canon[len(m.canon)-1].idx > ev.Idx {
			m.violate(ev, []string{"C10"}, "apply-skipped", ev.Node, "index %d is applied for the first time (on %s) after index %d had been applied elsewhere: some replica skipped it", ev.Idx, ev.Node, m.canon[len(m.canon)-1].idx)
			// keep S consistent enough to continue: insert without canonical state
			m.S[ev.Idx] = &applyRec{idx: ev.Idx, term: ev.Term, hash: ev.Hash, seq: ev.Seq, node: ev.Node, opID: ev.Str}
			return
		}
		var pc, ph uint64
		if len(m.canon) > 0 {
			pc, ph = m.canon[len(m.canon)-1].cnt, m.canon[len(m.canon)-1].chn
		}
		rec = &applyRec{idx: ev.Idx, term: ev.Term, hash: ev.Hash, seq: ev.Seq, node: ev.Node, opID: ev.Str,
			cnt: pc + 1, chn: FsmStep(ph, ev.Idx, ev.Term, ev.Hash)}
		m.S[ev.Idx] = rec
		m.canon = append(m.canon, rec)
		// C04 (i): first application anywhere
		if m.membershipOps == 0 {
			m.checkMajority(ev, ev.Idx, Entry{Index: ev.Idx, Term: ev.Term, Type: 1, Hash: ev.Hash}, "applied on "+ev.Node)
		}
	}
	if m.Puppet {
		// the scripted world, not the set of observed applies, defines the committed history
		if c, h, ok := m.canonFromK(ev.Idx); ok {
			rec = &applyRec{idx: ev.Idx, cnt: c, chn: h}
		} else {
			rec = &applyRec{idx: ev.Idx}
		}
	}
	// C10 (2): the replica is in the canonical state for this index
	if rec.cnt != 0 && (ev.Cnt != rec.cnt || ev.Chn != rec.chn) && !in.tainted && !in.reported {
		sig := "replica-state-diverged"
		if ev.Cnt > rec.cnt {
			sig = "replica-applied-twice"
		} else if ev.Cnt < rec.cnt {
			sig = "replica-missed-operations"
		}
		m.violate(ev, []string{"C10"}, sig, ev.Node, "state machine of %s (instance %d) after index %d holds %d operations, the committed history has %d", ev.Node, in.id, ev.Idx, ev.Cnt, rec.cnt)
		in.reported = true // report once per instance (this is not a taint: other oracles keep judging the instance)
	}
	m.markCommitted(ev, n, ev.Idx, "apply")
}

func (m *Monitor) onRestore(ev *Event) {
	in := m.inst(ev)
	// C11 (3): never restore to a point older than what the instance has applied
	// (a restore at start-up or in-process Restart legitimately goes back to the snapshot and replays the log;
	// only an installation - a restore caused by an InstallSnapshot request - is meant)
	if in.hasLast && ev.Idx < in.last && ev.Via != 0 {
		m.violate(ev, []string{"C11"}, "restore-older-than-applied", ev.Node, "state machine of %s restored to snapshot index %d after having applied index %d", ev.Node, ev.Idx, in.last)
	}
	m.Counts["restores"]++
	// C10 (3): bytes are those of a completed snapshot with that label and the content is canonical
	n := m.node(ev.Node)
	var src *snapFile
	for _, f := range m.snaps {
		if f.closed && f.node == ev.Node && f.idx == ev.Idx && f.term == ev.Term && f.hash == ev.Hash && f.size == ev.Num {
			src = f
			break
		}
	}
	if src == nil && n.snapLast != nil {
		m.violate(ev, []string{"C10", "C13"}, "restore-unknown-bytes", ev.Node, "state machine of %s restored from (index %d, term %d, %d bytes) which is no snapshot completed on that node", ev.Node, ev.Idx, ev.Term, ev.Num)
	}
	if src != nil && src.tainted {
		in.tainted = true
	}
	if ev.Flag && !in.tainted {
		cc, ch, _ := m.canonAt(ev.Idx)
		if m.Puppet {
			var ok bool
			if cc, ch, ok = m.canonFromK(ev.Idx); !ok {
				cc, ch = ev.Cnt, ev.Chn
			}
		}
		if ev.Cnt != cc || ev.Chn != ch {
			m.violate(ev, []string{"C10"}, "restore-content-mismatch", ev.Node, "state machine of %s restored to label %d with %d operations, committed history up to there has %d", ev.Node, ev.Idx, ev.Cnt, cc)
			in.tainted = true
		}
	}
	in.last, in.hasLast = ev.Idx, true
	in.cnt, in.chn = ev.Cnt, ev.Chn
}

// ---------------------------------------------------------------- messages

func (m *Monitor) onSend(ev *Event) {
	mm := ev.Msg
	mi := &msgInfo{m: *mm, sendSeq: ev.Seq}
	m.msgs[mm.ID] = mi
	m.Counts["msg."+mm.Kind]++
	if mm.Kind == "RV" && !mm.Dup {
		// a round = one request to every other voter; the n-th request of the same kind and term to the same
		// destination belongs to the n-th round (a node that keeps asking in the same term makes new rounds)
		k := fmt.Sprintf("%s/%d/%d/%v", mm.From, mm.FromInc, mm.Term, mm.Prevote)
		m.rvSendCount[k+"/"+mm.To]++
		k = fmt.Sprintf("%s#%d", k, m.rvSendCount[k+"/"+mm.To])
		if !m.rvRoundSeen[k] {
			m.rvRoundSeen[k] = true
			m.RVRounds++
		}
	}
	if mm.Kind == "AE" || mm.Kind == "IS" {
		if prev, ok := m.msgLeader[mm.Term]; ok && prev != mm.Leader {
			m.violate(ev, []string{"C02"}, "two-leaders", "", "requests of term %d name leader %s and leader %s", mm.Term, prev, mm.Leader)
		} else if !ok {
			m.msgLeader[mm.Term] = mm.Leader
		}
		if l, ok := m.leaderByTerm[mm.Term]; ok && l != mm.Leader {
			m.violate(ev, []string{"C02"}, "two-leaders", "", "term %d: %s became leader but a request of that term names %s", mm.Term, l, mm.Leader)
		}
		if mm.Leader != mm.From {
			m.violate(ev, []string{"C02"}, "leader-id-mismatch", mm.From, "node %s sent a %s request naming leader %s", mm.From, mm.Kind, mm.Leader)
		}
	}
	if mm.Kind == "AE" && !mm.Dup {
		if n := m.Nodes[mm.From]; n != nil {
			m.markCommitted(ev, n, mm.Commit, "leaderCommit")
		}
	}
}

func (m *Monitor) onDeliver(ev *Event) {
	mi := m.msgs[ev.Msg.ID]
	if mi == nil {
		mi = &msgInfo{m: *ev.Msg}
		m.msgs[ev.Msg.ID] = mi
	}
	n := m.node(ev.Msg.To)
	mi.delivSeq = ev.Seq
	mi.delivered = true
	mi.floor = n.termFloor
	mi.preLast = n.lastIndex()
}

func (m *Monitor) onReply(ev *Event) {
	r := ev.Msg
	mi := m.msgs[r.ID]
	if mi == nil {
		return
	}
	mi.replySeq = ev.Seq
	mi.m.RTerm, mi.m.ROK, mi.m.RIndex, mi.m.RWritten, mi.m.RErr = r.RTerm, r.ROK, r.RIndex, r.RWritten, r.RErr
	n := m.node(r.To)
	if r.RErr != "" {
		return
	}
	// C08 (1): reply terms never decrease
	if r.RTerm < mi.floor {
		m.violate(ev, []string{"C08"}, "reply-term-decreased", n.ID, "node %s answered a %s request with term %d after term %d had been observed for it", n.ID, r.Kind, r.RTerm, mi.floor)
	}
	if r.RTerm > n.termFloor {
		n.termFloor = r.RTerm
	}
	req := mi.m
	switch req.Kind {
	case "RV":
		if r.ROK && !req.Prevote {
			m.Counts["votes_granted"]++
			// C08 (5): the vote is on disk before the reply exists
			// (the stored state may have moved on to a later term by the time the reply is observed: what counts
			// is that a completed write of exactly this vote precedes the reply)
			if !(n.pSet && n.pTerm == r.RTerm && n.pVote == req.Leader) && !(n.pSet && n.pTerm > r.RTerm && n.voteByTerm[r.RTerm] == req.Leader) {
				m.violate(ev, []string{"C08", "C02"}, "vote-not-persisted", n.ID, "node %s granted its vote for term %d to %s but its stored state is (term %d, vote %q)", n.ID, r.RTerm, req.Leader, n.pTerm, n.pVote)
			}
			if prev := n.voteByTerm[req.Term]; prev != "" && prev != req.Leader {
				m.violate(ev, []string{"C08", "C02"}, "two-votes-in-term", n.ID, "node %s granted term %d to %s after voting for %s", n.ID, req.Term, req.Leader, prev)
			}
		}
		if r.ROK && req.Prevote {
			m.Counts["prevotes_granted"]++
		}
	case "AE":
		m.checkAEContract(ev, n, mi)
	}
}

// checkAEContract is the request contract of C06 for one handled AppendEntries request.
func (m *Monitor) checkAEContract(ev *Event, n *NodeSh, mi *msgInfo) {
	req := mi.m
	m.Counts["c06.ae_checked"]++
	if !req.ROK {
		if len(mi.muts) > 0 {
			m.violate(ev, []string{"C06"}, "rejected-request-changed-log", n.ID, "node %s rejected AppendEntries (prev %d, %d entries) from %s but changed its log (%s at %d)", n.ID, req.Prev, len(req.Ents), req.From, mi.muts[0].kind, mi.muts[0].idx)
		}
		return
	}
	m.Counts["c06.ae_success"]++
	reqTerm := map[uint64]uint64{}
	var lastReq uint64 = req.Prev
	for _, e := range req.Ents {
		reqTerm[e.Index] = e.Term
		if e.Index > lastReq {
			lastReq = e.Index
		}
	}
	for _, mu := range mi.muts {
		if mu.idx <= req.Prev {
			m.violate(ev, []string{"C06"}, "changed-below-prev", n.ID, "node %s: AppendEntries with prev %d caused %s at index %d", n.ID, req.Prev, mu.kind, mu.idx)
		}
		if mu.kind == "trunc" {
			t, ok := reqTerm[mu.idx]
			if !ok || t == mu.preTerm {
				m.violate(ev, []string{"C06"}, "truncate-without-conflict", n.ID, "node %s truncated at index %d (term %d) handling a request from %s that does not conflict there", n.ID, mu.idx, mu.preTerm, req.From)
			}
			m.Counts["c06.conflict_truncations"]++
		}
	}
	// After the handler returned, the request's entries were in the log at the time of its last mutation.
	// The log may have changed since (another handler), so agreement is checked through the matching map:
	// every entry of the request the node appended is covered by onLogAppend; entries it skipped must
	// have been present: check now only if no other request touched the log in between.
	if len(n.hist) > 0 {
		lastChange := n.hist[len(n.hist)-1].seq
		own := mi.delivSeq
		for _, mu := range mi.muts {
			if mu.seq > own {
				own = mu.seq
			}
		}
		if lastChange <= own {
			// success vouches for the previous entry: the node holds (prev index, prev term). Judged on the disk
			// shadow, which keeps the entries a persisted-but-not-yet-installed snapshot has not replaced yet.
			if req.Prev > n.base.Index {
				m.Counts["c06.ae_prev_checked"]++
				if se := n.entry(req.Prev); se == nil || se.Term != req.PrevTerm {
					have := "no entry"
					if se != nil {
						have = fmt.Sprintf("term %d", se.Term)
					}
					m.violate(ev, []string{"C06"}, "accepted-without-matching-prev", n.ID, "node %s answered success to AppendEntries(prev %d/%d, %d entries) from %s although its log holds %s at index %d", n.ID, req.Prev, req.PrevTerm, len(req.Ents), req.From, have, req.Prev)
				}
			} else if req.Prev == n.base.Index && req.Prev != 0 && n.base.Term != req.PrevTerm {
				m.violate(ev, []string{"C06"}, "accepted-without-matching-prev", n.ID, "node %s answered success to AppendEntries(prev %d/%d) from %s although its log starts after (%d,%d)", n.ID, req.Prev, req.PrevTerm, req.From, n.base.Index, n.base.Term)
			}
			for _, e := range req.Ents {
				se := n.entry(e.Index)
				if e.Index <= n.base.Index {
					continue
				}
				if se == nil || se.Term != e.Term || se.Hash != e.Hash {
					m.violate(ev, []string{"C06"}, "accepted-but-not-stored", n.ID, "node %s answered success to AppendEntries from %s but does not hold its entry (index %d, term %d)", n.ID, req.From, e.Index, e.Term)
					break
				}
			}
			m.Counts["c06.ae_agreement_checked"]++
		}
	}
}

// ---------------------------------------------------------------- samples

func (m *Monitor) onSample(ev *Event) {
	n := m.node(ev.Node)
	s := ev.St
	if ev.Inc != n.Inc {
		return
	}
	if s.Term < s.Floor {
		m.violate(ev, []string{"C08"}, "status-term-decreased", n.ID, "node %s reports term %d after term %d had been observed for it", n.ID, s.Term, s.Floor)
	}
	if s.Term > n.termFloor {
		n.termFloor = s.Term
	}
	if s.State == "leader" {
		if l, ok := m.leaderByTerm[s.Term]; ok && l != n.ID {
			m.violate(ev, []string{"C02"}, "two-leaders", "", "term %d: %s is leader but %s reports the leader state for that term", s.Term, l, n.ID)
		} else if !ok {
			// leadership that did not pass through becomeLeader's append
			m.leaderByTerm[s.Term] = n.ID
			m.leaderSeq[s.Term] = ev.Seq
		}
	}
	n.role = s.State
	// C08: term and vote in memory are the stored ones. Every change of either is written within the same critical
	// section, and the sample is taken under the node's lock; the clause applies when no storage event of the node
	// was recorded between just before the sample was taken and now. (A vote held in memory only - a candidate's
	// vote for itself, say - is forgotten by a restart, after which the node can vote again in that term.)
	if n.pSet && s.SV != 0 && s.SV == n.stateVer {
		m.Counts["c08.memory_vs_disk_checks"]++
		if s.Term != n.pTerm || s.Vote != n.pVote {
			m.violate(ev, []string{"C08", "C02"}, "term-vote-memory-differs-from-disk", n.ID, "node %s holds (term %d, vote %q) in memory while the last completed write of its term/vote storage is (term %d, vote %q)", n.ID, s.Term, s.Vote, n.pTerm, n.pVote)
		}
	}
	// C09 (1): the configuration a node reports is the configuration entry at that index of its own log
	// (only when the log shadow has not changed since before the sample was taken: otherwise the entry at that
	// index may already be another one)
	if s.Cfg != nil && s.Cfg.Index > 0 && s.LV == n.logVer {
		if e := n.entry(s.Cfg.Index); e != nil && (e.Type != 2 || e.Cfg == nil) {
			// the entry at the index of the configuration in use is not a configuration entry at all: the entry the
			// node took its configuration from is gone (replaced), and the node went on using it
			m.Counts["c09.cfg_vs_log_checks"]++
			m.violate(ev, []string{"C09"}, "configuration-not-in-log", n.ID, "node %s reports configuration %s but the entry at that index of its log is no configuration entry (type %d, term %d)", n.ID, s.Cfg.Canon(), e.Type, e.Term)
		} else if e != nil {
			m.Counts["c09.cfg_vs_log_checks"]++
			if !e.Cfg.Equal(s.Cfg) {
				m.violate(ev, []string{"C09"}, "configuration-differs-from-log", n.ID, "node %s reports configuration %s but the entry at that index of its log is %s", n.ID, s.Cfg.Canon(), e.Cfg.Canon())
			}
		}
	}
	if p := n.lastSample; p != nil && n.lastSampleInc == ev.Inc {
		if s.Commit < p.Commit {
			m.violate(ev, []string{"C06", "C11"}, "commit-index-decreased", n.ID, "node %s commit index went from %d to %d", n.ID, p.Commit, s.Commit)
		}
		if s.Applied < p.Applied {
			m.violate(ev, []string{"C11"}, "applied-index-decreased", n.ID, "node %s applied index went from %d to %d", n.ID, p.Applied, s.Applied)
		}
	}
	if s.Applied > s.Commit {
		m.violate(ev, []string{"C11"}, "applied-beyond-commit", n.ID, "node %s applied index %d > commit index %d", n.ID, s.Applied, s.Commit)
	}
	if m.Puppet && ev.Via != 0 && !m.concurrent {
		if mi := m.msgs[ev.Via]; mi != nil && mi.m.Kind == "AE" && n.lastSample != nil && n.lastSampleInc == ev.Inc {
			before := n.lastSample.Commit
			m.Counts["c06.commit_bound_checks"]++
			if s.Commit > before {
				verified := mi.m.Prev + uint64(len(mi.m.Ents))
				if !mi.m.ROK {
					m.violate(ev, []string{"C06"}, "commit-moved-on-reject", n.ID, "node %s rejected AppendEntries (prev %d) but its commit index moved %d -> %d", n.ID, mi.m.Prev, before, s.Commit)
				} else if s.Commit > mi.m.Commit {
					m.violate(ev, []string{"C06"}, "commit-beyond-leader-commit", n.ID, "node %s commit index moved %d -> %d handling a request with leaderCommit %d", n.ID, before, s.Commit, mi.m.Commit)
				} else if s.Commit > verified {
					m.violate(ev, []string{"C06"}, "commit-beyond-verified-prefix", n.ID, "node %s commit index moved %d -> %d handling AppendEntries(prev %d, %d entries, leaderCommit %d): entries above %d were not verified to match the sender", n.ID, before, s.Commit, mi.m.Prev, len(mi.m.Ents), mi.m.Commit, verified)
				}
			}
		}
	}
	n.lastSample, n.lastSampleInc, n.lastSampleSeq = s, ev.Inc, ev.Seq
	// log entries at or below the node's snapshot boundary are dead to it (they may be left over from before an
	// installed snapshot whose log replacement was interrupted): commit evidence covers only what lies above
	if s.LII > n.kMark && s.LII > n.base.Index {
		n.kMark = s.LII
	}
	m.markCommitted(ev, n, s.Commit, "commitIndex")
}

// ---------------------------------------------------------------- clients

func (m *Monitor) onRet(ev *Event) {
	r := ev.Op
	op := m.Ops[r.ID]
	if op == nil {
		return
	}
	call := op.Call
	*op = *r
	op.Call = call
	m.ackedSeq[r.ID] = ev.Seq
	if r.Type == "W" && r.Outcome == "ok" {
		m.Counts["acked_writes"]++
		// C04 (i) at the acknowledgement
		if rec := m.S[r.Index]; rec != nil {
			// applied already (checked at first apply); C03 (4) is offline
		} else {
			m.violate(ev, []string{"C03"}, "acked-before-applied", "", "operation %s acknowledged at index %d before any state machine applied that index", r.ID, r.Index)
		}
	}
}

// RetSeq returns the seq of the return event of an operation (0 if still open).
func (m *Monitor) RetSeq(id string) uint64 { return m.ackedSeq[id] }

// Fatal messages recorded.
func (m *Monitor) Fatals() []string { return m.fatal }

// AppliedSeq returns the canonical applied sequence (index order).
type AppliedOp struct {
	Idx, Term, Hash, Cnt, Chn, Seq uint64
	Node, OpID                     string
}

func (m *Monitor) Applied() []AppliedOp {
	out := make([]AppliedOp, 0, len(m.S))
	for _, r := range m.S {
		out = append(out, AppliedOp{r.idx, r.term, r.hash, r.cnt, r.chn, r.seq, r.node, r.opID})
	}
	sort.Slice(out, func(i, j int) bool { return out[i].Idx < out[j].Idx })
	return out
}

// MsgInfo exposes message bookkeeping to offline oracles.
func (m *Monitor) MsgByID(id uint64) (Msg, uint64, uint64, bool) {
	mi := m.msgs[id]
	if mi == nil {
		return Msg{}, 0, 0, false
	}
	return mi.m, mi.sendSeq, mi.replySeq, mi.replied
}

// Role returns the role last sampled for the node.
func (n *NodeSh) Role() string { return n.role }

// LastIndex / LastTerm of the disk-log shadow.
func (n *NodeSh) LastIndex() uint64                { return n.lastIndex() }
func (n *NodeSh) LastTerm() uint64                 { return n.lastTerm() }
func (n *NodeSh) BaseIndex() uint64                { return n.base.Index }
func (n *NodeSh) HaveLog() bool                    { return n.haveLog }
func (n *NodeSh) PersistedState() (uint64, string) { return n.pTerm, n.pVote }

// MixedInstall reports whether the recorded mixed-snapshot defect (known finding) happened on the node.
func (m *Monitor) MixedInstall(node string) bool {
	m.mu.Lock()
	defer m.mu.Unlock()
	n := m.Nodes[node]
	return n != nil && n.mixedInstall
}
func (n *NodeSh) SnapLabel() (uint64, uint64) { return n.snapLabelIdx, n.snapLabelTerm }

// IncTainted reports whether the state machine of a node incarnation was restored from a
// snapshot already flagged by the C10 oracle (its state comparisons are excluded elsewhere).
func (m *Monitor) IncTainted(node string, inc int) bool {
	for _, in := range m.insts {
		if in.node == node && in.inc == inc && in.tainted {
			return true
		}
	}
	return false
}

// onProbe judges a probe request sent after a compaction / snapshot installation (C11 clause 5):
// the node must decide as a node holding the full log would. ev.Str = kind, ev.Flag = expected decision,
// ev.Msg carries the request and reply.
func (m *Monitor) onProbe(ev *Event) {
	m.Counts["c11.probes"]++
	got := ev.Msg.ROK
	if got != ev.Flag {
		m.violate(ev, []string{"C11"}, "probe-decision/"+ev.Str, ev.Node, "node %s after compaction/installation answered %v to probe %s (%s); a node holding the full log (last index %d, last term %d) answers %v", ev.Node, got, ev.Str, ev.Msg.Kind, ev.Idx, ev.Term, ev.Flag)
	}
}

// canonFromK computes the canonical state after index idx from the committed-entry map, when that map is
// complete up to idx (puppet mode: the scripted world declares what is committed).
func (m *Monitor) canonFromK(idx uint64) (cnt, chn uint64, ok bool) {
	for j := uint64(1); j <= idx; j++ {
		e, have := m.K[j]
		if !have {
			return 0, 0, false
		}
		if e.Type == 1 {
			cnt++
			chn = FsmStep(chn, e.Index, e.Term, e.Hash)
		}
	}
	return cnt, chn, true
}

func (n *NodeSh) maxSnapLabel() uint64 {
	var mx uint64
	for _, f := range n.closedSnaps {
		if f.idx > mx {
			mx = f.idx
		}
	}
	return mx
}

// Steps returns the bounded-progress step counters (call without holding the lock).
func (m *Monitor) Steps() (rvRounds int, leaderStarts int, exch map[[2]string]int) {
	m.mu.Lock()
	defer m.mu.Unlock()
	exch = make(map[[2]string]int, len(m.LinkExch))
	for k, v := range m.LinkExch {
		exch[k] = v
	}
	return m.RVRounds, len(m.BecameLeader), exch
}

// LinkTail renders the last n messages exchanged on a directed link (witness of a stuck link).
func (m *Monitor) LinkTail(from, to string, n int) []string {
	m.mu.Lock()
	defer m.mu.Unlock()
	var out []string
	for i := len(m.Events) - 1; i >= 0 && len(out) < n; i-- {
		e := &m.Events[i]
		if e.Kind != KReply || e.Msg == nil || e.Msg.From != from || e.Msg.To != to {
			continue
		}
		req := Msg{}
		if mi := m.msgs[e.Msg.ID]; mi != nil {
			req = mi.m
		}
		switch e.Msg.Kind {
		case "AE":
			out = append(out, fmt.Sprintf("AE(term %d prev %d/%d n=%d commit %d) -> ok=%v term=%d hint=%d", req.Term, req.Prev, req.PrevTerm, len(req.Ents), req.Commit, e.Msg.ROK, e.Msg.RTerm, e.Msg.RIndex))
		case "IS":
			out = append(out, fmt.Sprintf("IS(term %d label %d/%d off %d n=%d done=%v) -> written=%d term=%d", req.Term, req.LastIdx, req.LastTerm, req.Off, req.NBytes, req.Done, e.Msg.RWritten, e.Msg.RTerm))
		}
	}
	return out
}

// latestCfg returns the newest configuration in the node's disk log shadow (nil if none in the retained part).
func (n *NodeSh) latestCfg() *Cfg {
	for i := len(n.ents) - 1; i >= 0; i-- {
		if n.ents[i].Type == 2 && n.ents[i].Cfg != nil {
			return n.ents[i].Cfg
		}
	}
	if n.snapLast != nil {
		return n.snapLast.cfg
	}
	return nil
}

// cfgStepsBehind counts the committed configuration entries newer than the configuration with the given index.
func (m *Monitor) cfgStepsBehind(idx uint64) int {
	n := 0
	for i, e := range m.K {
		if e.Type == 2 && i > idx {
			n++
		}
	}
	return n
}

// HasViolations reports whether any oracle has fired so far.
func (m *Monitor) HasViolations() bool {
	m.mu.Lock()
	defer m.mu.Unlock()
	return len(m.Viol) > 0
}
