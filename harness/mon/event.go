// Package mon is the runtime monitor: one recorder with a process-wide logical
// clock, shadows of every node's disk state, and the online oracles. All oracle
// state is a function of the event stream, so a stored event log can be fed to a
// fresh Monitor (Replay) and must reproduce the verdict.
package mon

import (
	"encoding/binary"
	"fmt"
	"hash/fnv"
	"sort"
)

// Entry is the value-copy of a log entry that monitors keep (never a pointer
// into the library's memory).
type Entry struct {
	Index uint64 `json:"i"`
	Term  uint64 `json:"t"`
	Type  uint32 `json:"y,omitempty"` // 0 no-op, 1 operation, 2 configuration
	Hash  uint64 `json:"h,omitempty"` // hash of Data
	Len   int    `json:"l,omitempty"`
	Cfg   *Cfg   `json:"c,omitempty"` // decoded configuration for configuration entries
}

// Cfg is a decoded cluster configuration.
type Cfg struct {
	Index   uint64          `json:"x"`
	Members map[string]bool `json:"m"` // id -> isVoter
}

func (c *Cfg) Voters() []string {
	var v []string
	if c == nil {
		return v
	}
	for id, isV := range c.Members {
		if isV {
			v = append(v, id)
		}
	}
	return v
}

// Canon is a canonical rendering of the configuration.
func (c *Cfg) Canon() string {
	ids := make([]string, 0, len(c.Members))
	for id := range c.Members {
		ids = append(ids, id)
	}
	sort.Strings(ids)
	s := fmt.Sprintf("%d:", c.Index)
	for _, id := range ids {
		v := "n"
		if c.Members[id] {
			v = "v"
		}
		s += id + "=" + v + ","
	}
	return s
}

func (c *Cfg) Equal(o *Cfg) bool {
	if c == nil || o == nil {
		return c == o
	}
	if c.Index != o.Index || len(c.Members) != len(o.Members) {
		return false
	}
	for k, v := range c.Members {
		if ov, ok := o.Members[k]; !ok || ov != v {
			return false
		}
	}
	return true
}

// Sample is a copy of a node's internal state (hook H2) or of Status().
type Sample struct {
	State       string            `json:"st"`
	Term        uint64            `json:"t"`
	Vote        string            `json:"v,omitempty"`
	Commit      uint64            `json:"c"`
	Applied     uint64            `json:"a"`
	LII         uint64            `json:"li,omitempty"`
	LIT         uint64            `json:"lt,omitempty"`
	Cfg         *Cfg              `json:"cf,omitempty"`
	CCfg        *Cfg              `json:"cc,omitempty"`
	Leader      string            `json:"ld,omitempty"`
	LeaseValid  bool              `json:"lv,omitempty"`
	Match       map[string]uint64 `json:"m,omitempty"`
	Next        map[string]uint64 `json:"nx,omitempty"`
	Floor       uint64            `json:"fl,omitempty"`  // largest term observed for the node before the sample was taken
	LV          uint64            `json:"lv2,omitempty"` // log-shadow version read before the sample was taken
	SV          uint64            `json:"sv,omitempty"`  // term/vote storage version read before the sample was taken
	CommitFloor uint64            `json:"cfl,omitempty"`
	ApplFloor   uint64            `json:"afl,omitempty"`
}

// Msg describes one RPC as seen by the network the harness owns.
type Msg struct {
	ID       uint64  `json:"id"`
	Kind     string  `json:"k"` // AE, RV, IS
	From     string  `json:"f"`
	FromInc  int     `json:"fi"`
	To       string  `json:"to"`
	ToInc    int     `json:"ti,omitempty"`
	Term     uint64  `json:"t"`
	Leader   string  `json:"ld,omitempty"` // LeaderID / CandidateID
	Prev     uint64  `json:"p,omitempty"`
	PrevTerm uint64  `json:"pt,omitempty"`
	Commit   uint64  `json:"c,omitempty"`
	Ents     []Entry `json:"e,omitempty"`
	Prevote  bool    `json:"pv,omitempty"`
	LastIdx  uint64  `json:"li,omitempty"` // RV: LastLogIndex, IS: LastIncludedIndex
	LastTerm uint64  `json:"lt,omitempty"`
	Off      int64   `json:"of,omitempty"`
	NBytes   int     `json:"nb,omitempty"`
	BHash    uint64  `json:"bh,omitempty"`
	Done     bool    `json:"dn,omitempty"`
	SnapCfg  *Cfg    `json:"sc,omitempty"`
	// reply
	RTerm    uint64 `json:"rt,omitempty"`
	ROK      bool   `json:"ok,omitempty"` // Success / VoteGranted
	RIndex   uint64 `json:"ri,omitempty"`
	RWritten int64  `json:"rw,omitempty"`
	RErr     string `json:"re,omitempty"`
	Dup      bool   `json:"du,omitempty"`
}

// Op is a client operation at the client boundary.
type Op struct {
	Client  int    `json:"c"`
	ID      string `json:"id"`
	Type    string `json:"ty"` // W, LR (linearizable read), SR (lease read), ADD, REM
	Target  string `json:"tg"`
	TInc    int    `json:"ti"`
	Call    uint64 `json:"ca,omitempty"` // seq of the call event
	Outcome string `json:"o,omitempty"`  // ok, err:<kind>, timeout, unknown
	// result (ok)
	Index   uint64 `json:"ix,omitempty"`
	Term    uint64 `json:"tm,omitempty"`
	BytesOK bool   `json:"bo,omitempty"`
	Count   uint64 `json:"n,omitempty"`
	Chain   uint64 `json:"ch,omitempty"`
	LastIx  uint64 `json:"lx,omitempty"`
	Cfg     *Cfg   `json:"cf,omitempty"`
	// membership request
	Server string `json:"sv,omitempty"`
	Voter  bool   `json:"vt,omitempty"`
}

// Event is one record in the event log. Fields are interpreted by Kind.
type Event struct {
	Seq  uint64  `json:"s"`
	W    int64   `json:"w,omitempty"` // wall-clock nanoseconds since the monitor was created (measured preconditions only)
	Kind string  `json:"k"`
	Node string  `json:"n,omitempty"`
	Inc  int     `json:"i,omitempty"`
	Via  uint64  `json:"via,omitempty"` // message id of the handler invocation that caused this storage event
	Idx  uint64  `json:"x,omitempty"`
	Term uint64  `json:"t,omitempty"`
	Str  string  `json:"str,omitempty"`
	Num  int64   `json:"num,omitempty"`
	Hash uint64  `json:"h,omitempty"`
	Flag bool    `json:"fl,omitempty"`
	Inst int     `json:"in,omitempty"` // FSM instance id / snapshot file id
	Cnt  uint64  `json:"cnt,omitempty"`
	Chn  uint64  `json:"chn,omitempty"`
	Lst  uint64  `json:"lst,omitempty"`
	Ents []Entry `json:"e,omitempty"`
	St   *Sample `json:"sm,omitempty"`
	Msg  *Msg    `json:"m,omitempty"`
	Op   *Op     `json:"op,omitempty"`
	Cfg  *Cfg    `json:"cf,omitempty"`
}

// Event kinds.
const (
	KLogOpen      = "log.open"     // Idx,Term = base; Ents = entries reloaded
	KLogAppend    = "log.append"   // Ents; Flag = single-entry AppendEntry; St = locked sample when no-op by leader
	KLogTrunc     = "log.trunc"    // Idx
	KLogCompact   = "log.compact"  // Idx
	KLogDiscard   = "log.discard"  // Idx, Term
	KStateSet     = "state.set"    // Term, Str=vote
	KStateOpen    = "state.open"   // Term, Str=vote (first State() of an incarnation)
	KSnapNew      = "snap.new"     // Inst=file id, Idx, Term, Cfg, Via (install) or 0 (local)
	KSnapWrite    = "snap.write"   // Inst, Num=offset, Cnt=len, Hash
	KSnapClose    = "snap.close"   // Inst, Num=size, Hash=bytes hash, Cnt/Chn/Lst = decoded content (Flag=decodable)
	KSnapDiscard  = "snap.discard" // Inst
	KSnapOpen     = "snap.open"    // Idx, Term (label of the file SnapshotFile() returned), Num=size, Hash, Cfg; Flag=false if none
	KApply        = "fsm.apply"    // Inst, Idx, Term, Hash (bytes), Str=op id, Cnt/Chn = state after
	KRead         = "fsm.read"     // Inst, Str=op id, Cnt/Chn/Lst = state returned
	KFsmSnap      = "fsm.snap"     // Inst, Cnt/Chn/Lst state written, Num=bytes
	KRestore      = "fsm.restore"  // Inst, Hash = bytes hash, Num = size, Cnt/Chn/Lst decoded; Flag=from InstallSnapshot/boot
	KSend         = "msg.send"
	KDeliver      = "msg.deliver"
	KReply        = "msg.reply"   // reply produced by the handler (at the receiver)
	KReplied      = "msg.replied" // reply handed back to the sender
	KDrop         = "msg.drop"    // Str = req|rep
	KCall         = "cli.call"
	KRet          = "cli.ret"
	KNodeNew      = "node.new"   // Flag = restart over an image
	KNodeStart    = "node.start" // Str = error if any
	KNodeCrash    = "node.crash" // Str = crash point
	KNodeStop     = "node.stop"
	KNodeBounce   = "node.bounce" // in-process Stop + Restart of the same object
	KSample       = "sample"
	KFault        = "fault" // Str = description
	KPhase        = "phase" // Str
	KFatal        = "fatal" // Str = message
	KNote         = "note"
	KBoot         = "boot"          // Cfg = bootstrap configuration (static voters)
	KLeaseOverlap = "lease.overlap" // Node became leader of Term while Str still reports leader (term Idx) with a valid lease
	KPuppet       = "puppet"        // puppet mode on
	KWorldCommit  = "world.commit"  // Ents declared committed by the scripted world
	KWorldSnap    = "world.snap"    // a snapshot a scripted sender has (Idx, Term, Num=size, Hash, Cnt, Chn)
	KProbe        = "probe"         // Str=kind, Flag=expected decision, Msg=request+reply, Idx/Term = true last index/term
)

func HashBytes(b []byte) uint64 {
	h := fnv.New64a()
	h.Write(b)
	return h.Sum64()
}

// Mix folds values into a chain hash.
func Mix(prev uint64, vals ...uint64) uint64 {
	h := fnv.New64a()
	var buf [8]byte
	binary.LittleEndian.PutUint64(buf[:], prev)
	h.Write(buf[:])
	for _, v := range vals {
		binary.LittleEndian.PutUint64(buf[:], v)
		h.Write(buf[:])
	}
	return h.Sum64()
}

// FsmStep is the state machine's transition: chain' = H(chain, index, term, hash(bytes)).
func FsmStep(chain, index, term, bytesHash uint64) uint64 {
	return Mix(chain, index, term, bytesHash)
}
