// Package gid attributes storage events to the RPC handler invocation running on
// the same goroutine (the harness network calls handlers synchronously).
package gid

import (
	"runtime"
	"sync"
)

var table sync.Map // goroutine id -> message id

// ID returns the current goroutine's id.
func ID() uint64 {
	var buf [64]byte
	n := runtime.Stack(buf[:], false)
	// "goroutine 123 ["
	var id uint64
	for i := len("goroutine "); i < n; i++ {
		c := buf[i]
		if c < '0' || c > '9' {
			break
		}
		id = id*10 + uint64(c-'0')
	}
	return id
}

// Set binds the current goroutine to a message id; the returned func unbinds.
func Set(msg uint64) func() {
	g := ID()
	table.Store(g, msg)
	return func() { table.Delete(g) }
}

// Get returns the message id bound to the current goroutine, or 0.
func Get() uint64 {
	if v, ok := table.Load(ID()); ok {
		return v.(uint64)
	}
	return 0
}
