// Package oracle holds the offline checkers that run over the recorded client
// history and the authoritative applied sequence at the end of a run.
package oracle

import (
	"fmt"
	"sort"
	"time"

	"github.com/anishathalye/porcupine"

	"verif/harness/mon"
)

type Stats struct {
	Writes, WritesOK, WritesMaybe int
	Reads, ReadsOK                int
	LeaseReads, LeaseReadsOK      int
	AppliedOps                    int
	MaybeApplied                  int // failed/timeout/unknown writes that did take effect
	Porcupine                     string
	PorcupineOps                  int
}

// Offline runs C03 (oracle A and B) and C05/C17 staleness checks. The monitor must be quiescent.
func Offline(m *mon.Monitor, porcupineTimeout time.Duration) Stats {
	var st Stats
	applied := m.Applied()
	st.AppliedOps = len(applied)
	byID := map[string][]mon.AppliedOp{}
	for _, a := range applied {
		byID[a.OpID] = append(byID[a.OpID], a)
	}
	// canonical chain by count
	canonChain := map[uint64]uint64{0: 0}
	for _, a := range applied {
		if a.Cnt != 0 {
			canonChain[a.Cnt] = a.Chn
		}
	}
	add := func(props []string, sig, node, format string, args ...interface{}) {
		m.AddViolation(mon.Violation{Props: props, Sig: sig, Node: node, Msg: fmt.Sprintf(format, args...)})
	}

	var writes, reads []*mon.Op
	for _, id := range m.OpOrder {
		op := m.Ops[id]
		switch op.Type {
		case "W":
			writes = append(writes, op)
		case "LR", "SR":
			reads = append(reads, op)
		}
	}

	// ---- C03 oracle A
	for _, op := range writes {
		st.Writes++
		recs := byID[op.ID]
		if len(recs) > 1 {
			add([]string{"C03"}, "applied-twice", "", "operation %s appears at %d positions of the applied sequence (indices %d and %d)", op.ID, len(recs), recs[0].Idx, recs[1].Idx)
		}
		if len(recs) > 0 && recs[0].Seq < op.Call {
			add([]string{"C03"}, "applied-before-invoked", "", "operation %s was applied (seq %d) before it was invoked (seq %d)", op.ID, recs[0].Seq, op.Call)
		}
		if op.Outcome == "ok" {
			st.WritesOK++
			if !op.BytesOK {
				add([]string{"C03"}, "future-wrong-bytes", op.Target, "operation %s: the future returned bytes different from those submitted", op.ID)
			}
			var rec *mon.AppliedOp
			for i := range applied {
				if applied[i].Idx == op.Index {
					rec = &applied[i]
					break
				}
			}
			switch {
			case rec == nil:
				add([]string{"C03"}, "future-unknown-index", op.Target, "operation %s acknowledged at index %d which no state machine applied", op.ID, op.Index)
			case rec.OpID != op.ID:
				add([]string{"C03"}, "future-wrong-operation", op.Target, "operation %s acknowledged at index %d but that index holds operation %s", op.ID, op.Index, rec.OpID)
			case rec.Term != op.Term:
				add([]string{"C03"}, "future-wrong-term", op.Target, "operation %s acknowledged with term %d, applied with term %d", op.ID, op.Term, rec.Term)
			case rec.Cnt != 0 && (rec.Cnt != op.Count || rec.Chn != op.Chain) && !m.IncTainted(op.Target, op.TInc):
				add([]string{"C03"}, "future-wrong-result", op.Target, "operation %s: the future carries state-machine result (count %d), the reference result at index %d is (count %d)", op.ID, op.Count, op.Index, rec.Cnt)
			}
		} else if op.Outcome != "" {
			st.WritesMaybe++
			if len(recs) > 0 {
				st.MaybeApplied++
			}
		}
	}
	// real-time order: nothing invoked after a completed may be ordered before a
	var maxCall uint64
	var maxCallOp string
	for _, a := range applied {
		op := m.Ops[a.OpID]
		if op == nil {
			continue
		}
		if op.Outcome == "ok" {
			if ret := m.RetSeq(op.ID); ret != 0 && ret < maxCall {
				add([]string{"C03"}, "real-time-order", "", "operation %s completed at seq %d, yet %s, invoked later (seq %d), is ordered before it (index %d)", op.ID, ret, maxCallOp, maxCall, a.Idx)
			}
		}
		if op.Call > maxCall {
			maxCall, maxCallOp = op.Call, op.ID
		}
	}

	// ---- C09 (2): the configuration a successful membership future reported is still committed at the end
	for _, id := range m.OpOrder {
		op := m.Ops[id]
		if (op.Type == "ADD" || op.Type == "REM") && op.Outcome == "ok" && op.Cfg != nil && op.Cfg.Index > 0 {
			if ke, ok := m.K[op.Cfg.Index]; ok && (ke.Type != 2 || ke.Cfg == nil || !ke.Cfg.Equal(op.Cfg)) {
				add([]string{"C09"}, "membership-future-not-durable", op.Target, "membership future %s succeeded with configuration %s, but the committed entry at index %d is different", op.ID, op.Cfg.Canon(), op.Cfg.Index)
			}
		}
	}

	// ---- C05 / C17 staleness (sequence numbers only, no clock)
	type ack struct {
		ret uint64
		pos uint64
		id  string
	}
	var acks []ack
	for _, op := range writes {
		if op.Outcome == "ok" {
			for _, a := range byID[op.ID] {
				if a.Cnt != 0 {
					acks = append(acks, ack{m.RetSeq(op.ID), a.Cnt, op.ID})
				}
			}
		}
	}
	sort.Slice(acks, func(i, j int) bool { return acks[i].ret < acks[j].ret })
	// prefix maximum of positions by ret
	prefMax := make([]uint64, len(acks))
	prefID := make([]string, len(acks))
	var pm uint64
	var pid string
	for i, a := range acks {
		if a.pos > pm {
			pm, pid = a.pos, a.id
		}
		prefMax[i], prefID[i] = pm, pid
	}
	type rd struct {
		op  *mon.Op
		ret uint64
	}
	var okReads []rd
	for _, op := range reads {
		prop := "C05"
		if op.Type == "SR" {
			prop = "C17"
			st.LeaseReads++
		} else {
			st.Reads++
		}
		if op.Outcome != "ok" {
			continue
		}
		if op.Type == "SR" {
			st.LeaseReadsOK++
		} else {
			st.ReadsOK++
		}
		if m.IncTainted(op.Target, op.TInc) {
			continue
		}
		i := sort.Search(len(acks), func(i int) bool { return acks[i].ret >= op.Call })
		if i > 0 && prefMax[i-1] > op.Count {
			add([]string{prop}, "stale-read", op.Target, "read %s at %s returned state after %d operations; write %s (position %d) had been acknowledged before the read was invoked", op.ID, op.Target, op.Count, prefID[i-1], prefMax[i-1])
		}
		if ch, ok := canonChain[op.Count]; ok && ch != op.Chain {
			add([]string{prop}, "read-divergent-state", op.Target, "read %s returned a state (count %d) that is not a prefix of the applied history", op.ID, op.Count)
		}
		okReads = append(okReads, rd{op, m.RetSeq(op.ID)})
	}
	// reads that do not overlap never go backwards
	sort.Slice(okReads, func(i, j int) bool { return okReads[i].ret < okReads[j].ret })
	var rmax uint64
	var rmaxID string
	byCall := append([]rd(nil), okReads...)
	sort.Slice(byCall, func(i, j int) bool { return byCall[i].op.Call < byCall[j].op.Call })
	j := 0
	for _, r := range byCall {
		for j < len(okReads) && okReads[j].ret < r.op.Call {
			if okReads[j].op.Count > rmax {
				rmax, rmaxID = okReads[j].op.Count, okReads[j].op.ID
			}
			j++
		}
		if r.op.Count < rmax {
			prop := "C05"
			if r.op.Type == "SR" {
				prop = "C17"
			}
			add([]string{prop}, "read-went-backwards", r.op.Target, "read %s returned count %d after read %s had completed with count %d", r.op.ID, r.op.Count, rmaxID, rmax)
		}
	}

	// ---- oracle B: porcupine over the client history alone
	// writes alone decide C03; if they are linearizable, writes + linearizable reads decide C05
	st.Porcupine, st.PorcupineOps = porcupineCheck(m, writes, nil, porcupineTimeout, "C03", add)
	if st.Porcupine == "ok" && len(reads) > 0 {
		res, n := porcupineCheck(m, writes, reads, porcupineTimeout, "C05", add)
		st.Porcupine, st.PorcupineOps = res, n
	}
	return st
}

type pIn struct {
	Write bool
	ID    string
	Maybe bool
}

func porcupineCheck(m *mon.Monitor, writes, reads []*mon.Op, timeout time.Duration, prop string, add func([]string, string, string, string, ...interface{})) (string, int) {
	var ops []porcupine.Operation
	end := int64(m.Now()) + 10
	for _, op := range writes {
		if op.Outcome == "" {
			continue
		}
		ret := int64(m.RetSeq(op.ID))
		if op.Outcome == "ok" {
			ops = append(ops, porcupine.Operation{ClientId: op.Client, Input: pIn{Write: true, ID: op.ID}, Call: int64(op.Call), Output: op.Count, Return: ret})
		} else {
			// indeterminate: may take effect at any later time
			end++
			ops = append(ops, porcupine.Operation{ClientId: op.Client, Input: pIn{Write: true, ID: op.ID, Maybe: true}, Call: int64(op.Call), Output: uint64(0), Return: end})
		}
	}
	for _, op := range reads {
		if op.Outcome != "ok" || op.Type != "LR" || m.IncTainted(op.Target, op.TInc) {
			continue
		}
		ops = append(ops, porcupine.Operation{ClientId: op.Client, Input: pIn{ID: op.ID}, Call: int64(op.Call), Output: op.Count, Return: int64(m.RetSeq(op.ID))})
	}
	if len(ops) == 0 {
		return "empty", 0
	}
	// client ids must be unique per concurrent operation for porcupine's visualisation only; not needed here
	model := porcupine.NondeterministicModel{
		Init: func() []interface{} { return []interface{}{uint64(0)} },
		Step: func(state, input, output interface{}) []interface{} {
			s := state.(uint64)
			in := input.(pIn)
			if in.Write {
				if in.Maybe {
					return []interface{}{s, s + 1}
				}
				if output.(uint64) == s+1 {
					return []interface{}{s + 1}
				}
				return nil
			}
			if output.(uint64) == s {
				return []interface{}{s}
			}
			return nil
		},
		Equal: func(a, b interface{}) bool { return a.(uint64) == b.(uint64) },
	}
	res := porcupine.CheckOperationsTimeout(model.ToModel(), ops, timeout)
	switch res {
	case porcupine.Ok:
		return "ok", len(ops)
	case porcupine.Illegal:
		add([]string{prop}, "porcupine-illegal", "", "the client history (%d operations) is not linearizable against the sequential counter model", len(ops))
		return "illegal", len(ops)
	}
	return "unknown", len(ops)
}
