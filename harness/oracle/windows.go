package oracle

import (
	"fmt"
	"strconv"
	"strings"

	"verif/harness/mon"
)

// WindowStats reports what the guarded-window oracles (C16, C17) measured.
type WindowStats struct {
	C16Windows     int
	C16MaxGapUs    int64
	C16PrecondFail string
	C17Windows     int
	C17LapsedReads int // lease reads judged by the lapsed-lease rule
	C17LapsedOK    int // ... that (correctly) returned an error/timeout
	C17PrecondFail string
	Discarded      int // violations discarded because the window's precondition did not hold
}

func has(xs []string, x string) bool {
	for _, y := range xs {
		if y == x {
			return true
		}
	}
	return false
}

// Windows runs the C16 and C17 window oracles over the recorded events (m.Events must be kept).
func Windows(m *mon.Monitor) WindowStats {
	var st WindowStats
	evs := m.Events
	// violations of a window are held back until its measured precondition is known: a window whose premise
	// (prompt contact / bounded delay and stalls) did not hold on this run is inconclusive, never violated
	var pending []mon.Violation
	add := func(props []string, sig, node, format string, args ...interface{}) {
		pending = append(pending, mon.Violation{Props: props, Sig: sig, Node: node, Msg: fmt.Sprintf(format, args...)})
	}
	flush := func(ok bool) {
		if ok {
			for _, v := range pending {
				m.AddViolation(v)
			}
		} else {
			st.Discarded += len(pending)
		}
		pending = nil
	}
	endInfo := func(e *mon.Event) (stall int64, rtt int64) {
		f := strings.Split(e.Str, "|")
		if len(f) > 1 {
			stall, _ = strconv.ParseInt(f[1], 10, 64)
		}
		if len(f) > 2 {
			rtt, _ = strconv.ParseInt(f[2], 10, 64)
		}
		return
	}
	for i := 0; i < len(evs); i++ {
		if evs[i].Kind != mon.KPhase {
			continue
		}
		f := strings.Split(evs[i].Str, "|")
		switch f[0] {
		case "c16.start":
			// c16.start|majority,ids|leader|term|etNs
			if len(f) < 5 {
				continue
			}
			maj := strings.Split(f[1], ",")
			leader := f[2]
			term, _ := strconv.ParseUint(f[3], 10, 64)
			et, _ := strconv.ParseInt(f[4], 10, 64)
			st.C16Windows++
			lastDeliver := map[string]int64{}
			for _, id := range maj {
				if id != leader {
					lastDeliver[id] = evs[i].W
				}
			}
			var maxGap int64
			j := i + 1
			for ; j < len(evs); j++ {
				e := &evs[j]
				if e.Kind == mon.KPhase && strings.HasPrefix(e.Str, "c16.end") {
					break
				}
				switch e.Kind {
				case mon.KStateSet:
					if has(maj, e.Node) && e.Term > term {
						add([]string{"C16"}, "majority-term-increased", e.Node, "majority-side node %s persisted term %d (vote %q) during the guarded window; the leader %s was in prompt contact with the majority in term %d", e.Node, e.Term, e.Str, leader, term)
					}
				case mon.KLogAppend:
					if e.Flag && len(e.Ents) == 1 && e.Ents[0].Type == 0 {
						add([]string{"C16"}, "leader-change", e.Node, "%s became leader of term %d during the guarded window although leader %s (term %d) stayed in prompt contact with the majority", e.Node, e.Ents[0].Term, leader, term)
					}
				case mon.KSample:
					if e.Node == leader && e.St != nil && (e.St.State != "leader" || e.St.Term != term) {
						add([]string{"C16"}, "leader-stepped-down", leader, "leader %s reports state %s in term %d during the guarded window (was leader of term %d)", leader, e.St.State, e.St.Term, term)
					}
				case mon.KDeliver:
					// any request of the leader that reaches the follower is contact (a follower that is sent a snapshot gets no AppendEntries)
					if e.Msg != nil && (e.Msg.Kind == "AE" || e.Msg.Kind == "IS") && e.Msg.From == leader {
						if last, ok := lastDeliver[e.Msg.To]; ok {
							if g := e.W - last; g > maxGap {
								maxGap = g
							}
							lastDeliver[e.Msg.To] = e.W
						}
					}
				}
			}
			if j < len(evs) {
				for _, last := range lastDeliver {
					if g := evs[j].W - last; g > maxGap {
						maxGap = g
					}
				}
			}
			st.C16MaxGapUs = maxGap / 1000
			okw := true
			if maxGap >= et/2 {
				okw = false
				st.C16PrecondFail = fmt.Sprintf("heartbeat gap %d ms on a majority-side link >= half the election timeout (%d ms)", maxGap/1e6, et/1e6)
			}
			if j < len(evs) {
				if stall, _ := endInfo(&evs[j]); stall >= et/4 {
					okw = false
					st.C16PrecondFail = fmt.Sprintf("scheduler stall of %d ms >= a quarter of the election timeout during the window", stall/1e6)
				}
			} else {
				okw = false
				st.C16PrecondFail = "window not closed"
			}
			flush(okw)
		case "c17.start":
			// c17.start|oldLeader|voter,ids|leaseNs|etNs
			if len(f) < 5 {
				continue
			}
			old := f[1]
			voters := strings.Split(f[2], ",")
			lease, _ := strconv.ParseInt(f[3], 10, 64)
			st.C17Windows++
			et, _ := strconv.ParseInt(f[4], 10, 64)
			lastVoterReply := evs[i].W
			calls := map[string]int64{}
			closed := false
			for j := i + 1; j < len(evs); j++ {
				e := &evs[j]
				if e.Kind == mon.KPhase && strings.HasPrefix(e.Str, "c17.end") {
					closed = true
					stall, rtt := endInfo(e)
					if lease+rtt+stall >= et {
						st.C17PrecondFail = fmt.Sprintf("timing assumption not met on this run: lease %d ms + max round trip %d ms + max stall %d ms >= election timeout %d ms", lease/1e6, rtt/1e6, stall/1e6, et/1e6)
						flush(false)
					} else {
						flush(true)
					}
					break
				}
				switch e.Kind {
				case mon.KLeaseOverlap:
					add([]string{"C17"}, "leader-elected-within-valid-lease", e.Node, "%s became leader of term %d while %s still reported the leader state (term %d) with a valid lease: voters must not elect anybody within an election timeout of hearing from a leader", e.Node, e.Term, e.Str, e.Idx)
				case mon.KReplied:
					if e.Msg != nil && e.Msg.Kind == "AE" && e.Msg.From == old && has(voters, e.Msg.To) {
						lastVoterReply = e.W
					}
				case mon.KCall:
					if e.Op != nil && e.Op.Type == "SR" && e.Op.Target == old {
						// elapsed since the last voter reply at the time of the call
						calls[e.Op.ID] = e.W - lastVoterReply
					}
				case mon.KRet:
					if e.Op != nil && e.Op.Type == "SR" && e.Op.Target == old {
						el, ok := calls[e.Op.ID]
						if !ok || el <= 5*lease {
							continue
						}
						st.C17LapsedReads++
						if e.Op.Outcome == "ok" {
							add([]string{"C17"}, "lease-read-after-lapse", old, "lease-based read %s at %s returned data (count %d) although the last reply of a voter had reached it %d ms before the read was invoked (lease %d ms)", e.Op.ID, old, e.Op.Count, el/1e6, lease/1e6)
						} else {
							st.C17LapsedOK++
						}
					}
				}
			}
			if !closed {
				st.C17PrecondFail = "window not closed"
				flush(false)
			}
		}
	}
	return st
}
