#!/bin/bash
# usage: harness/stress.sh <scenario> <params> <first-seed> <count> [parallel]  — experiments: runs bin/vrun over a seed range, prints every run that is not 'held'
scen="$1"; params="$2"; first="$3"; count="$4"; par="${5:-8}"
cd "$(dirname "$0")"
seq $first $((first+count-1)) | xargs -P $par -I{} sh -c "./bin/vrun -scen $scen -seed {} -p '$params' 2>/dev/null | python3 show.py x | grep -v \"{'\" | head -2 | cut -c1-420 | paste -sd' ' " | grep -v " held " | sort | head -40
echo "done $scen $params $first+$count"
