import json,sys
r=json.load(sys.stdin)
print(r['seed'],r['verdict'], r.get('inconclusive'), r['wall_ms'],'ms', 'steps',len(r.get('steps',[])), r.get('notes'), r.get('leaders'))
for v in r.get('violations',[])[:8]: print('   ',v['props'],v['sig'],v['msg'])
if len(sys.argv)>1:
    print('   ',r.get('offline')); print('   ',r.get('counts')); print('   ',r.get('steps')); print('   ', r.get('cover'))
