// vrun runs ONE scenario (family, seed, params) in this process and writes a verdict JSON.
package main

import (
	"bufio"
	"encoding/json"
	"flag"
	"fmt"
	"math/rand"
	"os"
	"path/filepath"
	"strings"
	"sync"
	"time"

	"verif/harness/cluster"
	"verif/harness/mon"
	"verif/harness/scen"
	"verif/harness/shim"
)

func scratchRoot() string {
	for _, d := range []string{"/dev/shm", os.Getenv("TMPDIR"), os.TempDir()} {
		if d == "" {
			continue
		}
		if st, err := os.Stat(d); err == nil && st.IsDir() {
			p, err := os.MkdirTemp(d, "verif-run-")
			if err == nil {
				return p
			}
		}
	}
	panic("no scratch directory")
}

func main() {
	name := flag.String("scen", "w1", "scenario")
	seed := flag.Int64("seed", 1, "seed")
	out := flag.String("out", "", "result file (default stdout)")
	evOut := flag.String("events", "", "write the event log here when the run is not 'held' (or always with -keep)")
	keep := flag.Bool("keep", false, "always write the event log")
	params := flag.String("p", "", "k=v,k=v")
	watchdog := flag.Duration("watchdog", 120*time.Second, "wall-clock watchdog (inconclusive when it fires)")
	storework := flag.String("storework", "", "child mode: run a storage workload (log|state|snap) under strace")
	swDir := flag.String("dir", "", "storework: data directory")
	swMarker := flag.String("marker", "", "storework: marker file")
	swN := flag.Int("n", 10, "storework: number of operations")
	flag.Parse()
	if *storework != "" {
		os.Exit(scen.StoreWork(*storework, *seed, *swDir, *swMarker, *swN))
	}

	P := scen.Params{}
	for _, kv := range strings.Split(*params, ",") {
		if i := strings.IndexByte(kv, '='); i > 0 {
			P[kv[:i]] = kv[i+1:]
		}
	}
	fn := scen.Registry[*name]
	if fn == nil {
		fmt.Fprintln(os.Stderr, "unknown scenario", *name)
		os.Exit(2)
	}
	root := scratchRoot()
	defer os.RemoveAll(root)

	if P.Bool("snapshots") {
		scen.SnapshotProfile(*seed, P)
	}
	r := rand.New(rand.NewSource(*seed))
	m := mon.New()
	m.Keep = true
	et := time.Duration(P.Int("et", 40+r.Intn(80))) * time.Millisecond
	hb := time.Duration(P.Int("hb", 8+r.Intn(17))) * time.Millisecond
	lease := time.Duration(P.Int("lease", int(et/time.Millisecond)/3+1)) * time.Millisecond
	fo := shim.FSMOpts{Seed: *seed, SnapThreshold: P.Int("snapthr", 0), Pad: P.Int("pad", 0),
		ApplyPreUs: P.Int("applypre", 0), ApplyInUs: P.Int("applyin", 0), SnapUs: P.Int("snapus", 0), SnapPreUs: P.Int("snappre", 0), RestoreUs: P.Int("restoreus", 0), Opaque: P.Bool("opaque")}
	c := cluster.New(m, root, *seed, cluster.Options{ET: et, HB: hb, Lease: lease, FSM: fo})
	res := &scen.Result{Scen: *name, Seed: *seed, Params: P, Nontrivial: map[string]bool{}, Cover: map[string]int{}}
	x := &scen.Ctx{C: c, M: m, R: r, P: P, Res: res, Root: root, Seed: *seed, OpCap: int64(P.Int("opcap", 400))}
	start := time.Now()

	var once sync.Once
	finish := func(inconclusive string) {
		once.Do(func() {
			if inconclusive != "" && res.Inconclusive == "" {
				res.Inconclusive = inconclusive
			}
			res.WallMs = time.Since(start).Milliseconds()
			m.Lock()
			res.Violations = append([]mon.Violation(nil), m.Viol...)
			res.Counts = map[string]int{}
			for k, v := range m.Counts {
				res.Counts[k] = v
			}
			res.Fatal = append([]string(nil), m.Fatals()...)
			events := m.Events
			m.Unlock()
			res.NEvents = len(events)
			// crash-point coverage cells (class x position x role) from the crash events
			for i := range events {
				if events[i].Kind == mon.KNodeCrash {
					d := events[i].Str
					if k := strings.Index(d, " (kept"); k > 0 {
						d = d[:k] + d[strings.Index(d, " role="):]
					}
					res.Cover["crash:"+d]++
				}
			}
			res.MaxRTTUs = c.Net.MaxRTT / 1000
			res.MaxStallUs = c.StallMaxNs.Load() / 1000
			switch {
			case len(res.Violations) > 0:
				res.Verdict = "violated"
			case res.Inconclusive != "":
				res.Verdict = "inconclusive"
			default:
				res.Verdict = "held"
			}
			if *evOut != "" && (*keep || res.Verdict != "held") {
				if f, err := os.Create(*evOut); err == nil {
					w := bufio.NewWriter(f)
					enc := json.NewEncoder(w)
					for i := range events {
						enc.Encode(&events[i])
					}
					w.Flush()
					f.Close()
					res.EventsFile = *evOut
				}
			}
			data, _ := json.Marshal(res)
			if *out == "" {
				os.Stdout.Write(append(data, '\n'))
			} else {
				os.MkdirAll(filepath.Dir(*out), 0o755)
				os.WriteFile(*out, data, 0o644)
			}
		})
	}
	cluster.FatalHandler = func(node, msg string) {
		// the library is about to os.Exit(1): record and flush first
		// (the monitor turned the fatal event into a violation when it was recorded)
		res.Trace = x.TraceHash()
		finish("")
		os.RemoveAll(root)
		os.Exit(3)
	}
	go func() {
		time.Sleep(*watchdog)
		res.Trace = x.TraceHash()
		finish("watchdog fired after " + watchdog.String())
		os.RemoveAll(root)
		os.Exit(4)
	}()

	func() {
		defer func() {
			if p := recover(); p != nil {
				m.AddViolation(mon.Violation{Props: []string{"C18"}, Sig: "panic", Msg: fmt.Sprintf("panic: %v", p)})
			}
		}()
		fn(x)
	}()
	x.StopClients()
	c.Shutdown()
	x.Finish()
	res.Trace = x.TraceHash()
	finish("")
}
