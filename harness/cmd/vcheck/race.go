package main

import (
	"fmt"
	"os"
	"path/filepath"
	"sort"
	"strings"
)

// parseRaceLogs reads the race detector's log files of one child and turns every report in which at least one
// of the two accesses is performed by library code into a C20 violation (de-duplicated by the pair of accessing
// functions, line numbers stripped). Reports in which both accesses are performed by harness code (even when the
// harness code was called by the library, e.g. handler registration on the harness's Transport) are harness errors.
func parseRaceLogs(dir string, idx int) (viol []Violation, reports int, raw string) {
	files, _ := filepath.Glob(filepath.Join(dir, fmt.Sprintf("r%05d.race.*", idx)))
	seen := map[string]bool{}
	for _, f := range files {
		data, err := os.ReadFile(f)
		if err != nil {
			continue
		}
		for _, block := range strings.Split(string(data), "==================") {
			if !strings.Contains(block, "WARNING: DATA RACE") {
				continue
			}
			reports++
			secs := accessSections(block)
			if len(secs) < 2 {
				continue
			}
			a, aok := innermostLib(secs[0])
			b, bok := innermostLib(secs[1])
			pair := []string{a, b}
			sort.Strings(pair)
			switch {
			case aok || bok:
				// at least one of the two accesses is performed by library code (the other may be harness code
				// touching memory the library handed over, e.g. request bytes read by a Transport)
				sig := "race/" + pair[0] + "|" + pair[1]
				if !seen[sig] {
					seen[sig] = true
					viol = append(viol, Violation{Props: []string{"C20"}, Sig: sig, Msg: "data race between " + pair[0] + " and " + pair[1] + "\n" + trimBlock(block)})
				}
			default:
				sig := "harness-race/" + pair[0] + "|" + pair[1]
				if !seen[sig] {
					seen[sig] = true
					viol = append(viol, Violation{Props: []string{"HARNESS"}, Sig: sig, Msg: "race report in which both accesses are performed by harness code (harness error, not a C20 violation)\n" + trimBlock(block)})
				}
			}
			if len(raw) < 30000 {
				raw += trimBlock(block) + "\n"
			}
		}
	}
	return
}

func trimBlock(b string) string {
	b = strings.TrimSpace(b)
	if len(b) > 3500 {
		b = b[:3500] + "\n..."
	}
	return b
}

type frame struct{ fn, file string }

// accessSections returns the stacks of the two conflicting accesses.
func accessSections(block string) [][]frame {
	var out [][]frame
	lines := strings.Split(block, "\n")
	for i := 0; i < len(lines); i++ {
		l := strings.TrimSpace(lines[i])
		if strings.HasPrefix(l, "Read at") || strings.HasPrefix(l, "Write at") || strings.HasPrefix(l, "Previous read at") || strings.HasPrefix(l, "Previous write at") ||
			strings.HasPrefix(l, "Atomic") || strings.HasPrefix(l, "Previous atomic") {
			var fr []frame
			j := i + 1
			for ; j+1 < len(lines); j += 2 {
				fn := strings.TrimSpace(lines[j])
				if fn == "" {
					break
				}
				file := strings.TrimSpace(lines[j+1])
				fr = append(fr, frame{fn, file})
			}
			out = append(out, fr)
			i = j
			if len(out) == 2 {
				return out
			}
		}
	}
	return out
}

// innermostLib names the function that performs the access: frames of the runtime, the standard library and
// third-party packages are skipped from the top (a bytes.Buffer or gRPC frame acts on memory its caller handed
// in); the first frame that belongs to the library or to the harness owns the access. An access made by harness
// code - e.g. inside the harness's Transport, Log or StateMachine implementation, although called from the
// library - is a harness matter, not a C20 violation.
func innermostLib(fr []frame) (string, bool) {
	for _, f := range fr {
		if strings.HasPrefix(f.fn, "verif/harness") || strings.HasPrefix(f.fn, "main.") || strings.Contains(f.file, "raft_verif.go") || strings.Contains(f.file, "/verif_on.go") {
			break
		}
		if strings.HasPrefix(f.fn, "github.com/jmsadair/raft") {
			name := strings.TrimPrefix(f.fn, "github.com/jmsadair/raft")
			name = strings.TrimPrefix(name, "/")
			name = strings.TrimPrefix(name, ".")
			if i := strings.Index(name, "()"); i >= 0 {
				name = name[:i]
			}
			// strip closure suffixes (.func1, .func1.2, .gowrap1)
			for {
				k := strings.LastIndex(name, ".")
				if k < 0 {
					break
				}
				suf := name[k+1:]
				if strings.HasPrefix(suf, "func") || strings.HasPrefix(suf, "gowrap") || (len(suf) > 0 && suf[0] >= '0' && suf[0] <= '9') {
					name = name[:k]
					continue
				}
				break
			}
			return name, true
		}
	}
	if len(fr) > 0 {
		fn := fr[0].fn
		if i := strings.Index(fn, "("); i > 0 && !strings.HasPrefix(fn, "github.com") {
			return "[" + fn[:i] + "]", false
		}
		return "[" + fn + "]", false
	}
	return "[?]", false
}
