package main

func cnt(r *Result, k string) int { return r.Counts[k] }

var clusterAssume = []string{
	"real time (no virtual clock): goroutine interleavings are influenced by injected delays, not controlled",
	"crash model: process death at storage-operation boundaries (crash-fork of the data directory) and torn appends",
	"hooks H1/H2 (build tag verif) are read-only",
}

func checks() map[string]*Check {
	m := map[string]*Check{}
	add := func(c *Check) { m[c.ID] = c }

	add(&Check{ID: "C01", Level: "exploration", Props: []string{"C01"},
		Runs: []RunSpec{
			{Scen: "w1", Params: "crash=1", Quick: 48, Thorough: 1200},
			{Scen: "w1", Params: "crash=1,torn=1,voters=3", Quick: 16, Thorough: 400},
			{Scen: "w1", Params: "crash=0,voters=5", Quick: 16, Thorough: 400},
		},
		NT: func(r *Result) bool {
			return cnt(r, "fsm.apply") > 0 && (cnt(r, "becameLeader") >= 2 || cnt(r, "log.trunc") > 0 || cnt(r, "node.crash") > 0)
		},
		Rule:   "runs are PRNG-determined fault schedules (W1) and directed choreographies (W2); a run is non-trivial when operations were applied and there was a leader change, a log truncation or a crash; distinct = distinct abstract trace (sequence of (leader,term) starts, fault steps, counts of truncations/crashes/snapshots)",
		Assume: clusterAssume})

	add(&Check{ID: "C02", Level: "exploration", Props: []string{"C02"},
		Runs: []RunSpec{
			{Scen: "w1", Params: "crash=1,voters=3", Quick: 32, Thorough: 800},
			{Scen: "w1", Params: "crash=1,voters=5", Quick: 32, Thorough: 800},
			{Scen: "w1", Params: "crash=1,voters=2", Quick: 16, Thorough: 400},
			{Scen: "w1", Params: "crash=1,voters=4", Quick: 16, Thorough: 400},
		},
		NT:     func(r *Result) bool { return cnt(r, "becameLeader") >= 2 && cnt(r, "votes_granted") >= 2 },
		Rule:   "non-trivial: at least two leadership starts and two granted real votes in the run; distinct = distinct abstract trace",
		Assume: clusterAssume})

	add(&Check{ID: "C03", Level: "exploration", Props: []string{"C03"},
		Runs: []RunSpec{
			{Scen: "w1", Params: "crash=1", Quick: 48, Thorough: 1200},
			{Scen: "w1", Params: "crash=0,clients=8", Quick: 32, Thorough: 800},
		},
		NT: func(r *Result) bool {
			return cnt(r, "acked_writes") > 0 && cnt(r, "becameLeader") >= 2
		},
		Rule:   "client histories recorded at the API boundary, checked by the white-box oracle (A) against the applied sequence and by porcupine (B) against a sequential counter model; non-trivial: acknowledged writes exist and leadership changed during the history",
		Assume: append([]string{"operation payloads are unique, so every result identifies its position"}, clusterAssume...)})

	add(&Check{ID: "C04", Level: "exploration", Props: []string{"C04"},
		Runs: []RunSpec{
			{Scen: "w1", Params: "crash=1,voters=2", Quick: 16, Thorough: 400},
			{Scen: "w1", Params: "crash=1,voters=3", Quick: 24, Thorough: 600},
			{Scen: "w1", Params: "crash=1,voters=4", Quick: 24, Thorough: 600},
			{Scen: "w1", Params: "crash=1,voters=5,torn=1", Quick: 16, Thorough: 400},
		},
		NT:     func(r *Result) bool { return cnt(r, "c04.majority_checks") > 0 && cnt(r, "node.crash") > 0 },
		Rule:   "non-trivial: at least one majority-on-disk check at a commit/apply/ack point and at least one crash+restart in the run",
		Assume: clusterAssume})

	add(&Check{ID: "C05", Level: "exploration", Props: []string{"C05"},
		Runs: []RunSpec{
			{Scen: "w1", Params: "crash=1,reads=1", Quick: 48, Thorough: 1200},
			{Scen: "w1", Params: "crash=0,reads=1,voters=3", Quick: 32, Thorough: 800},
		},
		NT:     func(r *Result) bool { return offl(r, "ReadsOK") > 0 && cnt(r, "becameLeader") >= 2 },
		Rule:   "non-trivial: successful linearizable reads exist and leadership changed during the history",
		Assume: clusterAssume})

	add(&Check{ID: "C06", Level: "exploration", Props: []string{"C06"},
		Runs: []RunSpec{
			{Scen: "w1", Params: "crash=1", Quick: 48, Thorough: 1200},
			{Scen: "w1", Params: "crash=0,voters=5", Quick: 16, Thorough: 400},
		},
		NT:     func(r *Result) bool { return cnt(r, "c06.ae_success") > 0 && cnt(r, "c06.conflict_truncations") > 0 },
		Rule:   "non-trivial: the run contains accepted AppendEntries requests and at least one conflict truncation",
		Assume: clusterAssume})

	add(&Check{ID: "C07", Level: "exploration", Props: []string{"C07"},
		Runs: []RunSpec{
			{Scen: "w1", Params: "crash=1", Quick: 64, Thorough: 1600},
			{Scen: "w1", Params: "crash=1,voters=5", Quick: 32, Thorough: 800},
		},
		NT:     func(r *Result) bool { return cnt(r, "becameLeader") >= 2 && cnt(r, "fsm.apply") > 0 },
		Rule:   "non-trivial: at least two leadership starts with committed entries present",
		Assume: clusterAssume})

	add(&Check{ID: "C08", Level: "exploration", Props: []string{"C08"},
		Runs: []RunSpec{
			{Scen: "w1", Params: "crash=1,voters=3", Quick: 32, Thorough: 800},
			{Scen: "w1", Params: "crash=1,voters=5", Quick: 32, Thorough: 800},
		},
		NT:     func(r *Result) bool { return cnt(r, "votes_granted") >= 2 && cnt(r, "state.set") >= 4 },
		Rule:   "non-trivial: at least two granted real votes and four term/vote writes",
		Assume: clusterAssume})
	puppetAssume := []string{
		"puppet layer: one real node (election timeout 3 ms), peers played by the harness; requests strictly sequential, so post-handler samples are exact before/after values",
		"domain: seed-determined consistent worlds (leader logs over terms 1-3, <= 7 entries, announced commit points respecting leader completeness); requests drawn from the senders' logs (any prev, any prefix of the suffix, leaderCommit <= what that leader announced), duplicates, stale terms, optional compacted prefix via a real InstallSnapshot, optional crash+restart between any two requests",
	}
	m["C06"].Runs = append(m["C06"].Runs, RunSpec{Scen: "puppet.ae", Params: "cases=60", Quick: 16, Thorough: 400}, RunSpec{Scen: "puppet.ae", Params: "cases=60,snapthr=2", Quick: 16, Thorough: 400})
	m["C06"].Runs = append(m["C06"].Runs, RunSpec{Scen: "puppet.iswindow", Params: "cases=4", Quick: 4, Thorough: 100}, RunSpec{Scen: "puppet.iswindow", Params: "cases=4,snapthr=2,snapus=80000,applyus=0", Quick: 2, Thorough: 50})
	m["C06"].NT = func(r *Result) bool {
		if r.Scen == "puppet.ae" {
			return cnt(r, "c06.commit_bound_checks") > 0
		}
		if r.Scen == "puppet.iswindow" {
			return cnt(r, "iswindow.ae_during_wait") > 0
		}
		return cnt(r, "c06.ae_success") > 0 && cnt(r, "c06.conflict_truncations") > 0
	}
	m["C06"].Rule += "; puppet runs: each run = 60 request sequences against a fresh real node, non-trivial when the exact commit-bound clause was evaluated; puppet.iswindow: each run = 4 directed cases in which the final chunk of a snapshot whose label lies inside the follower's stale tail arrives while an earlier entry is being applied (Apply takes 60 ms), the leader retransmits the chunk and continues with AppendEntries right after the label (non-trivial when such a request was answered while the installation was still waiting); variant snapthr=2,snapus=80000: the installation waits for a local snapshot (Snapshot takes 80 ms) instead, after which the apply loop and the installation compete"
	m["C06"].Assume = append(m["C06"].Assume, puppetAssume...)
	m["C04"].Runs = append(m["C04"].Runs, RunSpec{Scen: "w2.stalereply", Quick: 12, Thorough: 300})
	m["C01"].Runs = append(m["C01"].Runs, RunSpec{Scen: "w2.stalereply", Quick: 8, Thorough: 200})
	m["C08"].Runs = append(m["C08"].Runs, RunSpec{Scen: "puppet.rv", Params: "cases=30", Quick: 16, Thorough: 400}, RunSpec{Scen: "puppet.rv", Params: "cases=30,snapthr=2", Quick: 16, Thorough: 400},
		RunSpec{Scen: "w1", Params: "snapshots=1,crash=1,snapthr=5,voters=3", Quick: 16, Thorough: 400})
	m["C08"].NT = func(r *Result) bool {
		if r.Scen == "puppet.rv" {
			return cnt(r, "msg.RV") > 0 && cnt(r, "node.crash") > 0
		}
		return cnt(r, "votes_granted") >= 2 && cnt(r, "state.set") >= 4
	}
	m["C08"].Rule += "; puppet runs: each run = 30 stimulus sequences (vote requests over relative terms -1..+2, two candidates, five log comparisons, prevote on/off, interposed same/higher-term heartbeats, crash+restart after any step, inside/outside the recent-contact window) against a node driven into follower / pre-candidate / candidate"
	m["C08"].Assume = append(m["C08"].Assume, puppetAssume...)
	add(&Check{ID: "C11", Level: "exploration", Props: []string{"C11"},
		Runs: []RunSpec{
			{Scen: "puppet.is", Params: "cases=30", Quick: 32, Thorough: 800},
		},
		NT:     func(r *Result) bool { return cnt(r, "c11.probes") > 0 && cnt(r, "msg.IS") > 0 },
		Rule:   "puppet runs: each run = 30 InstallSnapshot sequences (two source snapshots, 1-3 chunks each, any order / duplication / wrong offsets, term lower/equal/higher, crash+restart) against a fresh real node with follower log shorter/longer/conflicting/matching at the boundary, followed by replication and vote probes whose correct answer follows from the true log; non-trivial when installs and probes happened",
		Assume: puppetAssume})

	add(&Check{ID: "C10", Level: "exploration", Props: []string{"C10"},
		Runs: []RunSpec{
			{Scen: "w1", Params: "snapshots=1,crash=1", Quick: 64, Thorough: 1600},
			{Scen: "w1", Params: "snapshots=1,crash=0,voters=3,clients=6", Quick: 32, Thorough: 800},
			{Scen: "w1", Params: "snapshots=1,crash=1,voters=1", Quick: 8, Thorough: 200},
			{Scen: "puppet.iswindow", Params: "cases=4,snapthr=2,snapus=80000,applyus=0", Quick: 2, Thorough: 50},
		},
		NT:     func(r *Result) bool { return cnt(r, "c10.local_snapshots") > 0 && cnt(r, "fsm.apply") > 0 },
		Rule:   "W1 schedules with snapshots on (threshold 4-30 entries, payload padding 0 B .. 3.5 chunks, four state-machine delay profiles drawn from the seed); every locally taken snapshot is decoded at Close and compared with the canonical history at its label; every Apply is followed by a comparison of the replica state with the canonical state; every Restore is compared with a completed snapshot. Non-trivial: snapshots were taken while operations were applied. puppet.iswindow (snapshot variant, see C06): a request accepted while an installation waits for a local snapshot would let the apply loop apply stale entries below the label",
		Assume: clusterAssume})
	m["C11"].Runs = append(m["C11"].Runs, RunSpec{Scen: "w1", Params: "snapshots=1,crash=1", Quick: 48, Thorough: 1200}, RunSpec{Scen: "w2.installcrash", Params: "snapshots=1", Quick: 32, Thorough: 800})
	m["C11"].Runs = append(m["C11"].Runs, RunSpec{Scen: "puppet.ae", Params: "cases=60,snapthr=2", Quick: 16, Thorough: 400})
	m["C11"].Runs = append(m["C11"].Runs, RunSpec{Scen: "puppet.iswindow", Params: "cases=4", Quick: 4, Thorough: 100}, RunSpec{Scen: "puppet.iswindow", Params: "cases=4,snapthr=2,snapus=80000,applyus=0", Quick: 2, Thorough: 50})
	m["C11"].NT = func(r *Result) bool {
		if r.Scen == "puppet.iswindow" {
			return cnt(r, "iswindow.ae_during_wait") > 0 && cnt(r, "log.discard") > 0
		}
		if r.Scen == "puppet.ae" {
			return cnt(r, "log.compact") > 0 && cnt(r, "log.open") > cnt(r, "puppet.cases")
		}
		if r.Scen == "puppet.is" {
			return cnt(r, "c11.probes") > 0 && cnt(r, "msg.IS") > 0
		}
		return cnt(r, "log.compact")+cnt(r, "log.discard") > 0
	}
	m["C11"].Rule += "; cluster runs (W1, snapshots on): non-trivial when a compaction or a discard happened; puppet.ae with local snapshots (threshold 2): compaction, then conflict truncations of retained entries, then a crash/restart - the reloaded log must equal what the node held (non-trivial when a compaction and a reload happened); puppet.iswindow (see C06): requests overlapping an installation that waits for an application in flight - nothing acknowledged or committed may be lost by the log replacement, the commit index never moves backwards"
	m["C11"].Assume = append(m["C11"].Assume, clusterAssume...)
	m["C07"].Runs = append(m["C07"].Runs, RunSpec{Scen: "w1", Params: "snapshots=1,crash=1", Quick: 32, Thorough: 800})
	m["C01"].Runs = append(m["C01"].Runs, RunSpec{Scen: "w1", Params: "snapshots=1,crash=1", Quick: 32, Thorough: 800})

	// directed choreographies (W2)
	app := func(id string, rs ...RunSpec) { m[id].Runs = append(m[id].Runs, rs...) }
	app("C01", RunSpec{Scen: "w2.takeover", Quick: 24, Thorough: 600}, RunSpec{Scen: "w2.figure8", Quick: 16, Thorough: 400}, RunSpec{Scen: "w2.staleinstall", Params: "snapshots=1,snapthr=6,pad=100", Quick: 24, Thorough: 600})
	app("C01", RunSpec{Scen: "w2.hightermrestart", Quick: 8, Thorough: 200})
	app("C07", RunSpec{Scen: "w2.hightermrestart", Quick: 8, Thorough: 200})
	app("C01", RunSpec{Scen: "w2.exacthalf", Quick: 8, Thorough: 200}, RunSpec{Scen: "w1", Params: "hold=1,crash=0,voters=5,steps=40", Quick: 8, Thorough: 400})
	app("C04", RunSpec{Scen: "w1", Params: "hold=1,crash=0,voters=5,steps=40", Quick: 8, Thorough: 400})
	app("C08", RunSpec{Scen: "w2.stalereject", Quick: 12, Thorough: 300}, RunSpec{Scen: "w1", Params: "hold=1,crash=1,voters=3,steps=40", Quick: 8, Thorough: 400})
	app("C02", RunSpec{Scen: "w2.stalereject", Quick: 8, Thorough: 200})
	app("C02", RunSpec{Scen: "w1", Params: "hold=1,crash=1,voters=3,steps=40", Quick: 8, Thorough: 400})
	app("C02", RunSpec{Scen: "w2.votes", Quick: 32, Thorough: 800})
	app("C03", RunSpec{Scen: "w1", Params: "crash=0,bounce=1,applyin=1500,voters=3,clients=6", Quick: 24, Thorough: 600}, RunSpec{Scen: "w1", Params: "crash=0,bounce=1,applyin=1500,voters=1", Quick: 8, Thorough: 200}, RunSpec{Scen: "w2.deposed", Quick: 24, Thorough: 600}, RunSpec{Scen: "w2.bounce", Quick: 16, Thorough: 400}, RunSpec{Scen: "w2.takeover", Quick: 16, Thorough: 400})
	app("C04", RunSpec{Scen: "w2.exacthalf", Quick: 16, Thorough: 400}, RunSpec{Scen: "w2.acklose", Quick: 24, Thorough: 600})
	app("C05", RunSpec{Scen: "w2.selfremoveread", Params: "opcap=2000", Quick: 12, Thorough: 300})
	app("C03", RunSpec{Scen: "w2.stalereply", Quick: 8, Thorough: 200})
	app("C05", RunSpec{Scen: "w2.deposedread", Params: "opcap=2000", Quick: 24, Thorough: 600}, RunSpec{Scen: "w2.staleround", Params: "opcap=2000", Quick: 24, Thorough: 600},
		RunSpec{Scen: "w2.freshread", Params: "opcap=4000,applyin=300", Quick: 16, Thorough: 400}, RunSpec{Scen: "w2.freshread", Params: "opcap=4000,applyin=300,voters=1", Quick: 8, Thorough: 200},
		RunSpec{Scen: "w1", Params: "crash=1,reads=1,applyin=400,voters=3", Quick: 24, Thorough: 600}, RunSpec{Scen: "w1", Params: "crash=1,reads=1,voters=1", Quick: 8, Thorough: 200})
	app("C06", RunSpec{Scen: "w2.takeover", Quick: 24, Thorough: 600}, RunSpec{Scen: "w1", Params: "snapshots=1,crash=1,snapthr=5", Quick: 32, Thorough: 800},
		RunSpec{Scen: "w2.installcrash", Params: "snapshots=1", Quick: 24, Thorough: 600})
	app("C07", RunSpec{Scen: "w2.nvquorum", Quick: 12, Thorough: 300})
	app("C10", RunSpec{Scen: "w1", Params: "snapshots=1,crash=1,snapus=6000,pad=40000,voters=3", Quick: 16, Thorough: 400},
		RunSpec{Scen: "w2.members", Params: "voters=4,snapshots=1,snapthr=4", Quick: 24, Thorough: 600})
	app("C06", RunSpec{Scen: "w1", Params: "crash=1,torn=1,crashbias=1,steps=30,voters=3", Quick: 16, Thorough: 400},
		RunSpec{Scen: "w2.cfgdiscard", Params: "snapshots=1,snapthr=4,restoreus=150000", Quick: 8, Thorough: 200})
	app("C07", RunSpec{Scen: "w1", Params: "snapshots=1,crash=1,torn=1,crashbias=1,steps=30", Quick: 24, Thorough: 600})
	app("C07", RunSpec{Scen: "w2.staleinstall", Params: "snapshots=1,snapthr=6,pad=100", Quick: 16, Thorough: 400}, RunSpec{Scen: "w2.takeover", Quick: 24, Thorough: 600}, RunSpec{Scen: "w2.figure8", Quick: 24, Thorough: 600}, RunSpec{Scen: "w2.acklose", Quick: 16, Thorough: 400})
	app("C08", RunSpec{Scen: "w2.votes", Quick: 24, Thorough: 600})

	add(&Check{ID: "C19", Level: "exploration", Props: []string{"C19"},
		Runs: []RunSpec{
			{Scen: "codec.wire", Params: "cases=400", Quick: 6, Thorough: 600},
			{Scen: "codec.storage", Params: "cases=300", Quick: 6, Thorough: 600},
			{Scen: "codec.e2e", Params: "size=0", Quick: 1, Thorough: 2},
			{Scen: "codec.e2e", Params: "size=1", Quick: 1, Thorough: 2},
			{Scen: "codec.e2e", Params: "size=32767", Quick: 1, Thorough: 2},
			{Scen: "codec.e2e", Params: "size=32768", Quick: 1, Thorough: 2},
			{Scen: "codec.e2e", Params: "size=32769", Quick: 1, Thorough: 2},
			{Scen: "codec.e2e", Params: "size=102400", Quick: 1, Thorough: 2},
			{Scen: "codec.e2e", Params: "size=4089446", Quick: 1, Thorough: 2},
			{Scen: "codec.e2e", Params: "size=4718592", Quick: 1, Thorough: 2},
			{Scen: "codec.e2e", Params: "size=9437184", Quick: 0, Thorough: 2},
		},
		NT: func(r *Result) bool {
			return cnt(r, "codec.wire_cases")+cnt(r, "codec.storage_cases")+cnt(r, "codec.e2e_runs") > 0
		},
		Rule:   "wire: generated requests/replies (0, 1, 2^31, 2^63, max uint64, random; ids empty/ASCII/UTF-8/NUL; 0..40 entries of all three types; data nil/empty/1 B/64 KiB/1 MiB; snapshot chunks up to just under 4 MiB; an oversize request must fail, not change) sent between two real transports on loopback and compared field by field; storage: log append/reopen/read, SetState/State across a new instance, Encode/DecodeConfiguration, snapshot metadata+content; end to end: leader's state machine writes N bytes, an empty follower over the real transport must restore exactly those bytes. nil and empty byte slices are treated as equal (proto3), conversions are counted. Each run = one seed-determined batch; distinct = distinct batches",
		Assume: []string{"loopback TCP on 127.0.0.1 is available", "nil vs empty byte slices are not distinguished (not representable in proto3)"}})

	add(&Check{ID: "C20", Level: "exploration", Props: []string{"C20"},
		Runs: []RunSpec{
			{Scen: "race.api", Params: "snapshots=1,opcap=100000", Quick: 10, Thorough: 200, Race: true, Par: 8},
			{Scen: "race.grpc", Params: "", Quick: 4, Thorough: 80, Race: true, Par: 8},
			{Scen: "race.stop", Params: "snapshots=1,opcap=100000", Quick: 8, Thorough: 160, Race: true, Par: 8},
			{Scen: "w1", Params: "snapshots=1,crash=1,reads=1,leasereads=1", Quick: 8, Thorough: 200, Race: true, Par: 8},
			{Scen: "w2.votes", Params: "", Quick: 4, Thorough: 80, Race: true, Par: 8},
			{Scen: "w2.bounce", Params: "", Quick: 4, Thorough: 80, Race: true, Par: 8},
		},
		NT: func(r *Result) bool {
			return cnt(r, "race.runs") > 0 && (cnt(r, "msg.send") > 100 || r.Scen == "race.grpc")
		},
		Rule:   "the harness is built with -race; runs are real-time clusters on the simulated network (deep-copying) and on the bundled gRPC transport, with many goroutines calling every public method (submissions of all types, Status, Configuration, AddServer/RemoveServer, Bootstrap on a running node, Stop/Restart on the same object, crash+restart) across leader changes, snapshots (slow state machine) and shutdowns. Race reports are read from the detector's log files; a report whose two accesses both lie in the library is a violation, de-duplicated by the pair of innermost library functions",
		Assume: []string{"the race detector only reports races on interleavings that happened; a clean run is not race freedom", "a report counts when at least one of the two accesses is performed by library code (runtime, standard-library and third-party frames are skipped from the top); reports in which both accesses are performed by harness code - also when called from the library, e.g. handler registration on the harness's Transport - are harness errors and are listed separately"}})

	add(&Check{ID: "C18", Level: "exploration", Props: []string{"C18"},
		Runs: []RunSpec{
			{Scen: "api.single", Quick: 64, Thorough: 3000},
			{Scen: "api.cluster", Quick: 48, Thorough: 3000},
			{Scen: "api.stopstorm", Params: "rounds=120", Quick: 8, Thorough: 200},
			{Scen: "w2.bounce", Quick: 8, Thorough: 200},
			{Scen: "w1", Params: "snapshots=1,crash=1,reads=1", Quick: 32, Thorough: 800},
		},
		NT:     func(r *Result) bool { return cnt(r, "api.calls") > 5 || r.Scen == "w2.bounce" || r.Scen == "w1" },
		Rule:   "each run = one seed-determined sequence of public API calls (NewRaft with boundary options, Bootstrap variants, Start/Stop/Restart in any order and repetition, Status, Configuration, String of every state and operation type, submissions of all types incl. an invalid one with nil/empty/large payloads and 0/tiny/normal timeouts, AddServer/RemoveServer of self/unknown/duplicate ids, Await twice) against a single node or a 3-node cluster whose target node was driven into leader / follower / pre-candidate / candidate / shutdown / deposed leader, with concurrent cluster activity; every call runs under panic capture and a hang watchdog, every future is timed, and a committed membership change must resolve its future without retrying. A panic in a library goroutine kills the child and is reported from its stderr",
		Assume: []string{"hang bound: 20 s + 5 s with two goroutine dumps; a machine stall > 1 s makes the run inconclusive instead", "future slack 2 s"}})

	windowAssume := []string{
		"real time: the guarded-window verdicts are conditional on preconditions measured on the run (heartbeat gaps, scheduler stalls, round-trip times); a run that does not meet them is inconclusive, never violated",
	}
	add(&Check{ID: "C16", Level: "exploration", Props: []string{"C16"},
		Runs: []RunSpec{
			{Scen: "w2.disrupt", Params: "et=120,hb=12,lease=40", Quick: 48, Thorough: 1200, Par: 8},
			{Scen: "w2.disrupt", Params: "et=200,hb=15,lease=60", Quick: 16, Thorough: 400, Par: 8},
			{Scen: "w2.lingering", Params: "et=150,hb=15,lease=50,opcap=100000", Quick: 16, Thorough: 400, Par: 8},
			{Scen: "w2.disruptrestore", Params: "snapshots=1,et=120,hb=12,lease=40,restoreus=2000000,opcap=100000", Quick: 8, Thorough: 200, Par: 8},
			{Scen: "puppet.sticky", Quick: 8, Thorough: 200, Par: 8},
			{Scen: "puppet.sticky", Params: "restoreus=300000", Quick: 8, Thorough: 200, Par: 8},
			{Scen: "w2.disruptpair", Params: "et=120,hb=12,lease=40", Quick: 12, Thorough: 300, Par: 8},
		},
		NT: func(r *Result) bool {
			if r.Scen == "puppet.sticky" {
				return cnt(r, "sticky.probes") > 0 && cnt(r, "sticky.granted_after_timeout") > 0
			}
			return cnt(r, "c16.windows") > 0 && cnt(r, "msg.RV") > 0
		},
		Rule:   "each run = one guarded window on a stable 3- or 5-voter cluster (optional non-voter): a minority is isolated symmetrically / inbound-only / outbound-only for 0.5-12 election timeouts, crashed and restarted, rejoined through duplicating links, or removed and left running, while clients write to the leader; inside the window no majority-side node may persist a higher term, nobody may become leader, and the leader's samples must stay leader of the same term. Non-trivial: outsiders sent vote requests during the run. w2.disruptrestore: the window is a new leader in contact with a follower that is restoring a snapshot for 16 election timeouts while the restarted old leader (which cannot hear the new one) campaigns. puppet.sticky: one real node answers a scripted legitimate leader (matching / missing-previous / conflicting-previous heartbeat, snapshot, heartbeat while Restore runs; previous contact older than the election timeout in half the probes) and is asked for its (pre)vote microseconds later by the other scripted node: it must neither grant nor adopt the term; probes slower than half the election timeout are not judged; non-trivial when probes were judged and the same request was granted once the timeout had passed",
		Assume: append([]string{"precondition measured per run: gaps between delivered leader requests (AppendEntries or InstallSnapshot) on majority links < 1/2 election timeout, scheduler stall < 1/4 election timeout"}, windowAssume...)})
	add(&Check{ID: "C17", Level: "exploration", Props: []string{"C17"},
		Runs: []RunSpec{
			{Scen: "w2.lease", Params: "et=600,hb=30,lease=100,opcap=100000", Quick: 24, Thorough: 600, Par: 8},
			{Scen: "w2.lease", Params: "voters=5,et=600,hb=30,lease=100,opcap=100000", Quick: 16, Thorough: 400, Par: 8},
			{Scen: "w2.deposedread", Params: "read=SR,et=600,hb=30,lease=100,opcap=2000", Quick: 8, Thorough: 200, Par: 8},
			{Scen: "w2.selfremoveread", Params: "read=SR,et=600,hb=30,lease=100,opcap=2000", Quick: 8, Thorough: 200, Par: 8},
			{Scen: "w2.freshread", Params: "read=SR,opcap=4000,applyin=300", Quick: 8, Thorough: 200, Par: 8},
			{Scen: "w2.lingering", Params: "et=300,hb=20,lease=100,opcap=100000", Quick: 8, Thorough: 200, Par: 8},
			{Scen: "w2.leasevote", Params: "et=300,hb=20,lease=100,opcap=100000", Quick: 16, Thorough: 400, Par: 8},
			{Scen: "w1", Params: "crash=1,reads=1,leasereads=1,et=600,hb=30,lease=100,steps=8", Quick: 8, Thorough: 200, Par: 8},
			{Scen: "puppet.sticky", Quick: 8, Thorough: 200, Par: 8},
			{Scen: "puppet.sticky", Params: "restoreus=300000", Quick: 8, Thorough: 200, Par: 8},
		},
		NT: func(r *Result) bool {
			if r.Scen == "puppet.sticky" {
				return cnt(r, "sticky.probes") > 0 && cnt(r, "sticky.granted_after_timeout") > 0
			}
			return offl(r, "LeaseReadsOK") > 0
		},
		Rule:   "lease-based reads are issued continuously at the old leader across partitions (from everyone / from the voters only, keeping a non-voter) and leader changes, with election timeout 600 ms, lease 100 ms, injected delay <= 15 ms per direction; successful lease reads are judged by the sequence-number staleness oracle (no clock), and a read invoked more than 5 lease durations after the last voter reply reached the old leader must not return data. Non-trivial: successful lease reads exist. puppet.sticky (see C16): every answer a voter gives its leader renews the leader's lease, so the voter must refuse (pre)votes for an election timeout afterwards, also when the answer was a rejection",
		Assume: append([]string{"precondition measured per run: lease + max round trip + max stall < election timeout"}, windowAssume...)})

	add(&Check{ID: "C14", Level: "fault_enumeration", Props: []string{"C14", "C01", "C02", "C06", "C07", "C08", "C10"},
		Runs: []RunSpec{
			{Scen: "w1", Params: "snapshots=1,crash=1,torn=1", Quick: 64, Thorough: 2400},
			{Scen: "w1", Params: "snapshots=1,crash=1,torn=1,voters=3,clients=6,pad=40000", Quick: 24, Thorough: 1200},
			{Scen: "w1", Params: "crash=1,torn=1", Quick: 24, Thorough: 1200},
			{Scen: "w1", Params: "snapshots=1,crash=1,torn=1,crashbias=1,steps=30", Quick: 32, Thorough: 1600},
			{Scen: "w1", Params: "crash=1,torn=1,crashbias=1,steps=30,voters=3", Quick: 16, Thorough: 800},
			{Scen: "w2.acklose", Quick: 8, Thorough: 300},
			{Scen: "w2.votes", Quick: 8, Thorough: 300},
			{Scen: "w2.installcrash", Params: "snapshots=1", Quick: 32, Thorough: 800},
			{Scen: "puppet.rv", Params: "cases=20", Quick: 4, Thorough: 100},
			{Scen: "puppet.is", Params: "cases=20", Quick: 4, Thorough: 100},
			{Scen: "store.log", Params: "ops=12", Quick: 8, Thorough: 100},
			{Scen: "store.snap", Params: "ops=3", Quick: 4, Thorough: 50},
			{Scen: "store.state", Params: "ops=8", Quick: 4, Thorough: 50},
		},
		NT: func(r *Result) bool {
			return (cnt(r, "node.crash") > 0 && cnt(r, "node.new") > cnt(r, "boot")) || cnt(r, "images") > 0
		},
		Rule:   "crash-fork at storage-operation boundaries chosen by the seed: classes {log append, log truncate, log compact, log discard, term/vote write, snapshot create, snapshot write, snapshot close, snapshot discard} x {before, after} plus torn appends (a byte prefix of the in-flight append kept) and asynchronous kills, in every role; after each crash a node is created and started over the directory image; oracles: NewRaft and Start return nil, no fatal abort or panic for the rest of the run, the safety oracles of C01/C02/C06/C07/C08/C10 stay silent, and the restarted node catches up within the step bounds of C15. Coverage cells (class x position x role) are counted in coverage_cells. Instants INSIDE a storage operation (mid-compaction, mid-discard, between the writes of a snapshot, mid-rename sequences) are enumerated at syscall granularity by the strace-replay sweeps of C12/C13, which are part of this check: a node must be constructible over every such image and find the right disk state. Non-trivial: at least one crash followed by a restart, or crash images judged",
		Assume: append([]string{"instants inside Compact/DiscardEntries/snapshot Close are covered at storage level (C12/C13), in cluster runs the crash falls at operation boundaries"}, clusterAssume...)})
	add(&Check{ID: "C15", Level: "exploration", Props: []string{"C15"},
		Runs: []RunSpec{
			{Scen: "w1", Params: "crash=1", Quick: 32, Thorough: 800},
			{Scen: "w1", Params: "snapshots=1,crash=1", Quick: 48, Thorough: 1200},
			{Scen: "w1", Params: "snapshots=1,crash=1,voters=3,pad=70000", Quick: 16, Thorough: 400},
			{Scen: "w2.takeover", Quick: 16, Thorough: 400},
			{Scen: "w2.figure8", Quick: 8, Thorough: 200},
			{Scen: "w2.installcrash", Params: "snapshots=1", Quick: 16, Thorough: 400},
			{Scen: "w2.boundarylag", Params: "snapshots=1,pad=100", Quick: 24, Thorough: 600},
			{Scen: "w1", Params: "snapshots=1,crash=0,bounce=1,restoreus=4000,snapthr=5,voters=3", Quick: 24, Thorough: 600},
			{Scen: "w2.bouncerestore", Params: "snapshots=1,restoreus=15000", Quick: 24, Thorough: 600},
			{Scen: "w2.hightermrestart", Quick: 12, Thorough: 300},
			{Scen: "w2.lostreplies", Params: "snapshots=1,snapthr=4", Quick: 12, Thorough: 300},
			{Scen: "w2.members", Quick: 16, Thorough: 400},
			{Scen: "codec.e2e", Params: "size=4718592", Quick: 1, Thorough: 2},
			{Scen: "puppet.is", Params: "cases=30", Quick: 16, Thorough: 400},
		},
		NT: func(r *Result) bool {
			return cnt(r, "c15.quiesce_ok")+cnt(r, "codec.e2e_runs")+cnt(r, "puppet.install_handler_waited") > 0
		},
		Rule:   "bounded-progress restatement, counted in protocol steps seen by the network (not seconds): after the heal of a fault schedule, (a) within 40 candidacy rounds per running voter a leader exists that then completes 20 heartbeat rounds unchallenged, (b) every running member reaches that leader's applied index within 300 completed exchanges on its link (log repair or snapshots below and above the chunk size), (c) a fresh write is acknowledged within 100 heartbeat exchanges. A wall-clock watchdog firing first is inconclusive. Non-trivial: the quiesce phase completed after a non-empty fault schedule",
		Assume: append([]string{"'eventually' is restated as a step bound; no finite run decides the unbounded statement"}, clusterAssume...)})

	add(&Check{ID: "C09", Level: "exploration", Props: []string{"C09", "C01", "C02", "C07"},
		Runs: []RunSpec{
			{Scen: "w2.members", Quick: 64, Thorough: 2000},
			{Scen: "w2.members", Params: "voters=1", Quick: 8, Thorough: 200},
			{Scen: "w2.members", Params: "voters=4,snapshots=1", Quick: 16, Thorough: 400},
			{Scen: "w2.cfgdiscard", Params: "snapshots=1,snapthr=4", Quick: 8, Thorough: 200},
			{Scen: "w2.memberlag", Quick: 12, Thorough: 200},
			{Scen: "w2.removeadd", Quick: 24, Thorough: 600},
			{Scen: "w2.promotesplit", Quick: 24, Thorough: 600},
			{Scen: "w2.nvquorum", Quick: 12, Thorough: 300},
			{Scen: "w2.deposedread", Params: "opcap=2000", Quick: 8, Thorough: 200},
		},
		NT: func(r *Result) bool {
			return cnt(r, "c09.election_quorum_checks") > 0 && (cnt(r, "c09.commit_majority_checks") > 0 || cnt(r, "c09.cfg_vs_log_checks") > 0)
		},
		Rule:   "random schedules of membership requests (add non-voter, promote, add voter directly, remove follower, remove leader, back-to-back without waiting, to any node, with retries) from 1-4 initial voters interleaved with partitions and crashes, plus choreographies: membership-lag split (two additions the old followers have not learnt, then a partition), remove-then-add without waiting, leader removing itself while partitioned, non-voter-only quorums for elections / commitment / reads. Oracles: C01, C02, C07 unchanged; reported configuration = own log entry at that index; successful futures carry a committed configuration containing the change that is still committed at the end; every election is backed by delivered votes of a majority of the VOTERS of the winner's configuration; every commit is backed by a majority of the voters of a configuration that leader can have been using. Requests that would leave no voter at all are not generated",
		Assume: clusterAssume})

	storeAssume := []string{
		"crash model: process death — every completed write(2) persists, in order; images are synthesised by replaying the strace-recorded syscalls (self-validated: the full replay must be byte-identical to the directory the workload left)",
		"byte prefixes of a write: all when <= 128 bytes, else the first/last 8 and every 64th",
		"loss of un-fsynced data (power failure) is not modelled here",
	}
	img := func(r *Result) bool {
		return (cnt(r, "images") > 0 && cnt(r, "traces_validated") > 0) || cnt(r, "snap.open") > 3
	}
	add(&Check{ID: "C12", Level: "fault_enumeration", Props: []string{"C12"},
		Runs: []RunSpec{
			{Scen: "store.log", Params: "ops=8", Quick: 16, Thorough: 2000},
			{Scen: "store.log", Params: "ops=14", Quick: 16, Thorough: 3000},
			{Scen: "store.log", Params: "ops=30", Quick: 4, Thorough: 600},
			{Scen: "store.log", Params: "ops=60", Quick: 0, Thorough: 100},
		},
		NT:     img,
		Rule:   "each evaluation is one seed-determined API sequence (append/append-batch/truncate/compact/discard/close/reopen) on the real file-backed log under strace; every syscall boundary and byte prefix of every write yields a crash image that is reopened with the real code, compared with a reference list model (state after k-1, after k, or k-1 plus a prefix of an in-flight append) and then exercised further (3 operations + reopen). distinct = distinct operation sequences with a validated trace; images are counted in events_by_kind.images",
		Assume: storeAssume})
	add(&Check{ID: "C13", Level: "fault_enumeration", Props: []string{"C13"},
		Runs: []RunSpec{
			{Scen: "store.state", Params: "ops=10", Quick: 12, Thorough: 800},
			{Scen: "store.snap", Params: "ops=3", Quick: 12, Thorough: 600},
			{Scen: "store.snap", Params: "ops=8", Quick: 4, Thorough: 240},
			{Scen: "store.snap", Params: "ops=40", Quick: 1, Thorough: 36},
			{Scen: "w1", Params: "snapshots=1,crash=1,snapus=6000,pad=40000,voters=3", Quick: 16, Thorough: 400},
		},
		NT:     img,
		Rule:   "each evaluation is one seed-determined SetState sequence or snapshot-storage sequence (create/write*/close|discard/get/reopen, payloads 0 B..>2 chunks, up to 40 snapshots) under strace; on every crash image the storages and NewRaft must construct at the first attempt, State() must be the last returned or the in-flight value, SnapshotFile() the most recently closed snapshot (or its in-flight successor), complete and with matching metadata",
		Assume: storeAssume})
	m["C04"].Runs = append(m["C04"].Runs, RunSpec{Scen: "store.log", Params: "ops=12", Quick: 4, Thorough: 40})
	return m
}

func offl(r *Result, k string) int {
	if r.Offline == nil {
		return 0
	}
	if v, ok := r.Offline[k].(float64); ok {
		return int(v)
	}
	return 0
}
