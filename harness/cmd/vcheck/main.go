// vcheck <property> <quick|thorough>: fan out scenario runs (one child process each), aggregate the
// verdicts, classify violations against known findings, write evidence, print VIOLATION /
// KNOWN-FINDING lines and exit 0 / 1 (2 = inconclusive: too few conclusive runs).
package main

import (
	"context"
	"encoding/json"
	"fmt"
	"os"
	"os/exec"
	"path"
	"path/filepath"
	"runtime"
	"sort"
	"strconv"
	"strings"
	"sync"
	"time"
)

type Violation struct {
	Props   []string `json:"props"`
	Sig     string   `json:"sig"`
	Msg     string   `json:"msg"`
	Seq     uint64   `json:"seq"`
	Node    string   `json:"node,omitempty"`
	Witness []uint64 `json:"witness,omitempty"`
}

type Result struct {
	Scen         string                 `json:"scen"`
	Seed         int64                  `json:"seed"`
	Params       map[string]string      `json:"params,omitempty"`
	Verdict      string                 `json:"verdict"`
	Inconclusive string                 `json:"inconclusive,omitempty"`
	Violations   []Violation            `json:"violations,omitempty"`
	Counts       map[string]int         `json:"counts,omitempty"`
	Trace        string                 `json:"trace"`
	Steps        []string               `json:"steps,omitempty"`
	Nontrivial   map[string]bool        `json:"nontrivial,omitempty"`
	Cover        map[string]int         `json:"cover,omitempty"`
	Offline      map[string]interface{} `json:"offline,omitempty"`
	Notes        []string               `json:"notes,omitempty"`
	Fatal        []string               `json:"fatal,omitempty"`
	WallMs       int64                  `json:"wall_ms"`
	Leaders      []string               `json:"leaders,omitempty"`
	MaxRTTUs     int64                  `json:"max_rtt_us,omitempty"`
	MaxStallUs   int64                  `json:"max_stall_us,omitempty"`
	EventsFile   string                 `json:"events_file,omitempty"`
	NEvents      int                    `json:"n_events,omitempty"`
	Extra        map[string]interface{} `json:"extra,omitempty"`

	exit   int
	stderr string
	spec   RunSpec
}

// RunSpec is one family of runs inside a check.
type RunSpec struct {
	Scen     string
	Params   string
	Quick    int
	Thorough int
	Race     bool
	Par      int // max parallel children (0 = default)
}

type Check struct {
	ID     string
	Level  string
	Runs   []RunSpec
	Props  []string // violation properties that count for this check
	NT     func(r *Result) bool
	Rule   string
	Assume []string
	Engine func(ck *Check, tier string, seed int64) int // non-cluster engines
}

type Finding struct {
	Property  string `json:"property"`
	Signature string `json:"signature"`
	Status    string `json:"status"` // known | fixed
	Commit    string `json:"commit,omitempty"`
	What      string `json:"what"`
}

var verifDir string

func loadFindings() []Finding {
	var f struct {
		Findings []Finding `json:"findings"`
	}
	data, err := os.ReadFile(filepath.Join(verifDir, "known_findings.json"))
	if err != nil {
		return nil
	}
	json.Unmarshal(data, &f)
	return f.Findings
}

func splitmix(x uint64) uint64 {
	x += 0x9e3779b97f4a7c15
	z := x
	z = (z ^ (z >> 30)) * 0xbf58476d1ce4e5b9
	z = (z ^ (z >> 27)) * 0x94d049bb133111eb
	return z ^ (z >> 31)
}

func seedFor(base int64, fam string, i int) int64 {
	h := uint64(base)
	for _, c := range []byte(fam) {
		h = splitmix(h ^ uint64(c))
	}
	return int64(splitmix(h^uint64(i)) >> 1)
}

func has(xs []string, x string) bool {
	for _, y := range xs {
		if y == x {
			return true
		}
	}
	return false
}

func runChild(bin string, spec RunSpec, seed int64, dir string, idx int, watchdog time.Duration) *Result {
	out := filepath.Join(dir, fmt.Sprintf("r%05d.json", idx))
	ev := filepath.Join(dir, fmt.Sprintf("r%05d.events.jsonl", idx))
	errf := filepath.Join(dir, fmt.Sprintf("r%05d.stderr", idx))
	args := []string{"-scen", spec.Scen, "-seed", strconv.FormatInt(seed, 10), "-out", out, "-events", ev, "-watchdog", watchdog.String()}
	if spec.Params != "" {
		args = append(args, "-p", spec.Params)
	}
	ctx, cancel := context.WithTimeout(context.Background(), watchdog+45*time.Second)
	defer cancel()
	cmd := exec.CommandContext(ctx, bin, args...)
	ef, _ := os.Create(errf)
	cmd.Stderr = ef
	cmd.Stdout = ef
	cmd.Env = append(os.Environ(), "GORACE=halt_on_error=0 exitcode=0 log_path="+filepath.Join(dir, fmt.Sprintf("r%05d.race", idx)))
	err := cmd.Run()
	ef.Close()
	res := &Result{Scen: spec.Scen, Seed: seed, spec: spec}
	if data, rerr := os.ReadFile(out); rerr == nil {
		json.Unmarshal(data, res)
		res.spec = spec
	} else {
		res.Verdict = "inconclusive"
		res.Inconclusive = "child produced no result"
	}
	if err != nil {
		if ee, ok := err.(*exec.ExitError); ok {
			res.exit = ee.ExitCode()
		} else {
			res.exit = -1
		}
	}
	if b, e := os.ReadFile(errf); e == nil {
		s := string(b)
		if len(s) > 20000 {
			s = s[:8000] + "\n...\n" + s[len(s)-12000:]
		}
		res.stderr = s
	}
	if spec.Race {
		rv, nrep, _ := parseRaceLogs(dir, idx)
		if res.Counts == nil {
			res.Counts = map[string]int{}
		}
		res.Counts["race.reports"] += nrep
		res.Counts["race.runs"]++
		if len(rv) > 0 {
			res.Violations = append(res.Violations, rv...)
			if res.Verdict == "held" {
				res.Verdict = "violated"
			}
		}
	}
	// a child that died without a verdict: panic / runtime fatal / killed
	if res.Verdict == "inconclusive" && res.Inconclusive == "child produced no result" {
		if strings.Contains(res.stderr, "panic:") || strings.Contains(res.stderr, "fatal error:") {
			res.Verdict = "violated"
			line := firstLineWith(res.stderr, "panic:", "fatal error:")
			res.Violations = append(res.Violations, Violation{Props: []string{"C18", "C14"}, Sig: "child-crashed", Msg: "the process died: " + line})
			if d := os.Getenv("VERIF_DEBUG"); d != "" {
				os.WriteFile(fmt.Sprintf("/tmp/child-crash-%s-%d.stderr", spec.Scen, seed), []byte(res.stderr), 0o644)
			}
		}
	}
	return res
}

func firstLineWith(s string, subs ...string) string {
	for _, l := range strings.Split(s, "\n") {
		for _, sub := range subs {
			if strings.Contains(l, sub) {
				return strings.TrimSpace(l)
			}
		}
	}
	return ""
}

type agg struct {
	results []*Result
}

func main() {
	if len(os.Args) < 3 {
		fmt.Fprintln(os.Stderr, "usage: vcheck <property> <quick|thorough> | vcheck --replay <file>")
		os.Exit(2)
	}
	verifDir = os.Getenv("VERIF_DIR")
	if verifDir == "" {
		verifDir = "/verif"
	}
	if os.Args[1] == "--replay" {
		os.Exit(replay(os.Args[2]))
	}
	id, tier := os.Args[1], os.Args[2]
	if t := os.Getenv("VERIF_TIER"); t == "quick" || t == "thorough" {
		tier = t
	}
	seed := int64(1)
	if s := os.Getenv("VERIF_SEED"); s != "" {
		if v, err := strconv.ParseInt(s, 10, 64); err == nil {
			seed = v
		}
	}
	ck := checks()[id]
	if ck == nil {
		fmt.Fprintln(os.Stderr, "unknown property", id)
		os.Exit(2)
	}
	if ck.Engine != nil {
		os.Exit(ck.Engine(ck, tier, seed))
	}
	os.Exit(runClusterCheck(ck, tier, seed))
}

func binPath(name string) string {
	if d := os.Getenv("VERIF_BIN"); d != "" {
		return filepath.Join(d, name)
	}
	return filepath.Join(verifDir, "harness", "bin", name)
}

func scratch(prefix string) string {
	for _, d := range []string{"/dev/shm", os.Getenv("TMPDIR"), os.TempDir()} {
		if d == "" {
			continue
		}
		if p, err := os.MkdirTemp(d, prefix); err == nil {
			return p
		}
	}
	panic("no scratch dir")
}

func runClusterCheck(ck *Check, tier string, seed int64) int {
	start := time.Now()
	dir := scratch("verif-check-" + ck.ID + "-")
	defer os.RemoveAll(dir)

	type job struct {
		spec RunSpec
		seed int64
		idx  int
	}
	var jobs []job
	for _, sp := range ck.Runs {
		n := sp.Quick
		if tier == "thorough" {
			n = sp.Thorough
		}
		for i := 0; i < n; i++ {
			jobs = append(jobs, job{sp, seedFor(seed, ck.ID+"/"+sp.Scen+"/"+sp.Params, i), len(jobs)})
		}
	}
	par := runtime.NumCPU() * 3 / 4
	if par < 2 {
		par = 2
	}
	if p := os.Getenv("VERIF_PAR"); p != "" {
		if v, err := strconv.Atoi(p); err == nil && v > 0 {
			par = v
		}
	}
	for _, sp := range ck.Runs {
		if sp.Par > 0 && sp.Par < par {
			par = sp.Par
		}
	}
	results := make([]*Result, len(jobs))
	execJobs := func(js []job) {
		var wg sync.WaitGroup
		ch := make(chan job)
		for w := 0; w < par; w++ {
			wg.Add(1)
			go func() {
				defer wg.Done()
				for j := range ch {
					bin := binPath("vrun")
					if j.spec.Race {
						bin = binPath("vrun-race")
					}
					results[j.idx] = runChild(bin, j.spec, j.seed, dir, j.idx, 150*time.Second)
				}
			}()
		}
		for _, j := range js {
			ch <- j
		}
		close(ch)
		wg.Wait()
	}
	execJobs(jobs)
	// replacement seeds when too many runs were inconclusive
	inc := 0
	for _, r := range results {
		if r.Verdict == "inconclusive" {
			inc++
		}
	}
	if inc*4 > len(jobs) {
		var extra []job
		for i, j := range jobs {
			if results[i].Verdict == "inconclusive" {
				nj := job{j.spec, seedFor(seed+7777, ck.ID+"/"+j.spec.Scen+"/"+j.spec.Params, i), len(results) + len(extra)}
				extra = append(extra, nj)
			}
		}
		results = append(results, make([]*Result, len(extra))...)
		execJobs(extra)
	}
	return report(ck, tier, seed, results, start, dir)
}

// report aggregates, classifies, writes evidence and replays.
func report(ck *Check, tier string, seed int64, results []*Result, start time.Time, dir string) int {
	findings := loadFindings()
	known := map[string]Finding{}
	for _, f := range findings {
		if f.Status == "known" && f.Property == ck.ID {
			known[f.Signature] = f
		}
	}
	var held, violated, inconclusive int
	distinct := map[string]bool{}
	kinds := map[string]int{}
	cover := map[string]int{}
	var samples []interface{}
	knownHit := map[string]int{}
	type unl struct {
		r *Result
		v Violation
	}
	var unlisted []unl
	otherProps := map[string]int{}
	totalEvents := 0
	for _, r := range results {
		if r == nil {
			continue
		}
		totalEvents += r.NEvents
		for k, v := range r.Counts {
			kinds[k] += v
		}
		for k, v := range r.Cover {
			cover[k] += v
		}
		mine := 0
		if os.Getenv("VERIF_DEBUG") != "" && len(r.Violations) > 0 {
			for _, v := range r.Violations {
				fmt.Printf("DEBUG scen=%s params=%q seed=%d props=%v sig=%s: %.300s\n", r.Scen, r.spec.Params, r.Seed, v.Props, v.Sig, v.Msg)
			}
		}
		for _, v := range r.Violations {
			rel := false
			for _, p := range v.Props {
				if has(ck.Props, p) {
					rel = true
				}
			}
			if !rel {
				otherProps[strings.Join(v.Props, ",")+":"+v.Sig]++
				continue
			}
			mine++
			if f, ok := matchKnown(known, v.Sig); ok {
				knownHit[f.Signature]++
			} else {
				unlisted = append(unlisted, unl{r, v})
			}
		}
		switch {
		case mine > 0:
			violated++
		case r.Verdict == "inconclusive":
			inconclusive++
		default:
			held++
			if ck.NT == nil || ck.NT(r) {
				distinct[r.Trace] = true
			}
		}
		if len(samples) < 4 && r.Verdict != "inconclusive" {
			samples = append(samples, map[string]interface{}{"scenario": r.Scen, "seed": r.Seed, "params": r.Params, "steps": trunc(r.Steps, 30), "leaders": trunc(r.Leaders, 12), "verdict": r.Verdict, "events": r.NEvents, "offline": r.Offline})
		}
	}
	// print lines
	exit := 0
	sigs := make([]string, 0, len(knownHit))
	for s := range knownHit {
		sigs = append(sigs, s)
	}
	sort.Strings(sigs)
	for _, s := range sigs {
		fmt.Printf("KNOWN-FINDING: property=%s %s [signature %s, seen in %d runs]\n", ck.ID, known[s].What, s, knownHit[s])
	}
	os.MkdirAll(filepath.Join(outDir(), "replays"), 0o755)
	seenSig := map[string]bool{}
	for _, u := range unlisted {
		if seenSig[u.v.Sig] {
			continue
		}
		seenSig[u.v.Sig] = true
		path := filepath.Join(outDir(), "replays", fmt.Sprintf("%s-%d-%s.json", ck.ID, u.r.Seed, sanitize(u.v.Sig)))
		writeReplay(path, ck.ID, u.r, u.v)
		fmt.Printf("VIOLATION property=%s replay=%s\n", ck.ID, path)
		fmt.Printf("  signature=%s scenario=%s seed=%d: %s\n", u.v.Sig, u.r.Scen, u.r.Seed, u.v.Msg)
		exit = 1
	}
	conclusive := held + violated
	need := len(results) / 4
	if need < 1 {
		need = 1
	}
	if exit == 0 && conclusive < need {
		fmt.Printf("INCONCLUSIVE property=%s only %d of %d runs were conclusive\n", ck.ID, conclusive, len(results))
		for _, r := range results {
			if r != nil && r.Verdict == "inconclusive" {
				fmt.Printf("  e.g. scenario=%s seed=%d: %s\n", r.Scen, r.Seed, r.Inconclusive)
				break
			}
		}
		exit = 2
	}
	// evidence
	ev := map[string]interface{}{
		"property_id": ck.ID,
		"tier":        tier,
		"seed":        seed,
		"level":       ck.Level,
		"wall_s":      time.Since(start).Seconds(),
		"violations":  len(unlisted),
		"assumptions": ck.Assume,
		"coverage": map[string]interface{}{
			"evaluations":                         len(results),
			"distinct_nontrivial":                 len(distinct),
			"rule":                                ck.Rule,
			"samples":                             samples,
			"runs_held":                           held,
			"runs_violated":                       violated,
			"runs_inconclusive":                   inconclusive,
			"events_observed":                     totalEvents,
			"events_by_kind":                      kinds,
			"coverage_cells":                      cover,
			"known_findings_seen":                 knownHit,
			"violations_of_other_properties_seen": otherProps,
		},
	}
	writeEvidence(ck.ID, ev)
	fmt.Printf("%s %s: %d runs (%d held, %d violated, %d inconclusive), %d distinct non-trivial traces, %d events, %.1fs\n", ck.ID, tier, len(results), held, violated, inconclusive, len(distinct), totalEvents, time.Since(start).Seconds())
	return exit
}

func matchKnown(known map[string]Finding, sig string) (Finding, bool) {
	if f, ok := known[sig]; ok {
		return f, true
	}
	for pat, f := range known {
		if strings.Contains(pat, "*") {
			if ok, _ := path.Match(pat, sig); ok {
				return f, true
			}
		}
	}
	return Finding{}, false
}

func trunc(xs []string, n int) []string {
	if len(xs) > n {
		return append(append([]string(nil), xs[:n]...), fmt.Sprintf("... (%d more)", len(xs)-n))
	}
	return xs
}

func sanitize(s string) string {
	out := []byte(s)
	for i, c := range out {
		if !(c >= 'a' && c <= 'z' || c >= 'A' && c <= 'Z' || c >= '0' && c <= '9' || c == '-') {
			out[i] = '_'
		}
	}
	return string(out)
}

func outDir() string {
	if d := os.Getenv("VERIF_OUT"); d != "" {
		return d
	}
	return verifDir
}

func writeEvidence(id string, ev map[string]interface{}) {
	os.MkdirAll(filepath.Join(outDir(), "evidence"), 0o755)
	data, _ := json.MarshalIndent(ev, "", " ")
	os.WriteFile(filepath.Join(outDir(), "evidence", id+".json"), data, 0o644)
}

func writeReplay(path, prop string, r *Result, v Violation) {
	rp := map[string]interface{}{
		"property": prop, "scenario": r.Scen, "seed": r.Seed, "params": r.Params, "violation": v, "all_violations": r.Violations,
		"steps": r.Steps, "leaders": r.Leaders, "stderr": r.stderr, "notes": r.Notes, "fatal": r.Fatal, "extra": r.Extra,
	}
	if r.EventsFile != "" {
		if data, err := os.ReadFile(r.EventsFile); err == nil {
			// keep replay files bounded: the window around the witness plus everything small
			lines := strings.Split(strings.TrimSpace(string(data)), "\n")
			if len(lines) > 60000 {
				lines = lines[:60000]
			}
			evs := make([]json.RawMessage, 0, len(lines))
			for _, l := range lines {
				evs = append(evs, json.RawMessage(l))
			}
			rp["events"] = evs
		}
	}
	data, _ := json.Marshal(rp)
	os.WriteFile(path, data, 0o644)
	// cap the number of replay files per property
	matches, _ := filepath.Glob(filepath.Join(filepath.Dir(path), prop+"-*.json"))
	if len(matches) > 12 {
		sort.Slice(matches, func(i, j int) bool {
			a, _ := os.Stat(matches[i])
			b, _ := os.Stat(matches[j])
			return a.ModTime().Before(b.ModTime())
		})
		for _, m := range matches[:len(matches)-12] {
			os.Remove(m)
		}
	}
}
