package main

import (
	"encoding/json"
	"fmt"
	"os"
	"time"

	"verif/harness/mon"
	"verif/harness/oracle"
)

// replay re-judges a stored history offline: the event log is fed to a fresh monitor and the
// same oracles must reproduce the violation.
func replay(path string) int {
	data, err := os.ReadFile(path)
	if err != nil {
		fmt.Fprintln(os.Stderr, err)
		return 2
	}
	var rp struct {
		Property  string          `json:"property"`
		Scenario  string          `json:"scenario"`
		Seed      int64           `json:"seed"`
		Violation Violation       `json:"violation"`
		Events    []mon.Event     `json:"events"`
		Extra     json.RawMessage `json:"extra"`
	}
	if err := json.Unmarshal(data, &rp); err != nil {
		fmt.Fprintln(os.Stderr, err)
		return 2
	}
	fmt.Printf("replay %s: property=%s scenario=%s seed=%d stored violation: [%s] %s\n", path, rp.Property, rp.Scenario, rp.Seed, rp.Violation.Sig, rp.Violation.Msg)
	if len(rp.Events) == 0 {
		fmt.Println("no event log stored (non-cluster engine): the stored witness above is the replay; re-run the check with the same VERIF_SEED to re-execute")
		return 1
	}
	m := mon.Replay(rp.Events)
	m.Events = rp.Events
	oracle.Offline(m, 20*time.Second)
	oracle.Windows(m)
	found := false
	for _, v := range m.Viol {
		rel := false
		for _, p := range v.Props {
			if p == rp.Property {
				rel = true
			}
		}
		if rel {
			fmt.Printf("  re-judged: [%s] %s (seq %d)\n", v.Sig, v.Msg, v.Seq)
			if v.Sig == rp.Violation.Sig {
				found = true
			}
		}
	}
	if found {
		fmt.Printf("VIOLATION property=%s replay=%s\n", rp.Property, path)
		return 1
	}
	fmt.Println("the stored history does not reproduce the violation under the current oracles")
	return 0
}
