#!/bin/bash
# Builds the framework from files on disk only (offline).
set -e
cd "$(dirname "$0")/harness"
export GOFLAGS=-mod=mod GOPROXY=off GOSUMDB=off GOTOOLCHAIN=local
mkdir -p bin
go build -tags verif -o bin/vcheck ./cmd/vcheck
go build -tags verif -o bin/vrun ./cmd/vrun
echo setup ok
