#!/usr/bin/env python3
"""Generates MANIFEST.json from the table below (kept in one place so it stays valid)."""
import json, subprocess

BASE_OFF = ("cd /repo && GOFLAGS=-mod=mod go test -json -vet=off -count=1 -timeout 25m ./...")

checks = {
 # id: (level, technique, text, note, design_ref)
 "C01": ("exploration", "runtime monitor on StateMachine.Apply over fault-injected cluster runs",
         "Online oracle over every Apply call of every replica/incarnation (index -> term, bytes; per-instance order) in PRNG-determined fault schedules with crash-fork and torn appends on real file-backed storage. Held on the executions produced, not verified.",
         "simulated network (deep-copying), real storage on tmpfs, real time; crash = process death at storage-operation boundaries", "5/C01"),
 "C02": ("exploration", "runtime monitor on leadership starts, outgoing request headers and state samples",
         "term -> leader map fed by the exact becameLeader boundary event (single-entry no-op append), LeaderID/Term of every outgoing AppendEntries/InstallSnapshot, and locked state samples, in fault-injected cluster runs with 2-5 voters.",
         "same as C01", "5/C02"),
 "C03": ("exploration", "client-boundary history checked by a white-box oracle and by porcupine",
         "Histories of concurrent submissions recorded at the API boundary with one logical clock; oracle A checks bytes/index/term/result, at-most-once and real-time order against the applied sequence; oracle B (porcupine v1.3.0, nondeterministic counter model) checks the history alone.",
         "unique payloads; failed/timeout/unknown operations stay open to the end of the history", "5/C03"),
 "C04": ("exploration", "disk-log shadows checked at every commit/apply/ack point; durability across crash-fork restarts; fsync discipline from strace",
         "At the first commit evidence / first Apply of an index, a majority of the static voters must hold the entry in the shadow of their on-disk log (updated only after the real fsync returned); reopened logs must contain every completed write; later leaders/applies are checked by C01/C07 oracles under crash-all/restart-majority schedules.",
         "crash = process death (completed writes persist); power-loss semantics only via the anchored fsyncs", "5/C04"),
 "C05": ("exploration", "stale-read oracle over client histories (sequence numbers only) + porcupine",
         "Every successful linearizable read names the exact prefix it saw (count, chain); it must cover every write acknowledged before its invocation, be a prefix of the applied history, and non-overlapping reads must not go backwards.",
         "no clock enters the verdict", "5/C05"),
 "C06": ("exploration", "log-matching chain map + per-request contract attributed by goroutine",
         "Global (index,term)->prefix-hash map over every entry entering any disk-log shadow; every handled AppendEntries request is checked: reject => no mutation, accept => the node holds (prev index, prev term), no change below prev, truncation only at a genuine conflict, no committed entry removed; commit index monotone per incarnation; directed cases with requests overlapping a snapshot installation that waits for an application in flight.",
         "storage events are attributed to the handler invocation running on the same goroutine", "5/C06"),
 "C07": ("exploration", "online check at the becameLeader boundary event against the committed-entry map",
         "At every leadership start the new leader's pre-append disk log must contain every entry for which commit evidence (Apply, LeaderCommit, CommitIndex sample) was recorded earlier; no later truncation may remove one.",
         "same as C01", "5/C07"),
 "C08": ("exploration", "monitor on StateStorage writes, RequestVote replies and state samples across incarnations",
         "Persisted terms and reply/status terms never decrease per node id across crash-fork restarts; at most one candidate per (node, term) over all SetState calls and granted replies; grants only to up-to-date logs; prevote handlers cause no SetState; granted vote is on disk before the reply exists; reopened state equals last completed write.",
         "same as C01", "5/C08"),
 "C10": ("exploration", "snapshot content decoded at Close and compared with the canonical history; replica state compared after every Apply/Restore",
         "Fault-injected cluster runs with snapshots on (threshold 4-30, payloads 0 B to 3.5 chunks, slow Snapshot/Apply/Restore profiles): label = content for every locally taken snapshot, replica state = canonical prefix after every Apply, Restore bytes = a completed snapshot with matching label and canonical content; directed cases with requests overlapping an installation that waits for a local snapshot.",
         "the monitor state machine is an append-only hash chain, so a state names exactly one prefix of one history", "5/C10"),
 "C11": ("exploration", "puppet sweep of InstallSnapshot sequences with boundary probes; snapshot/compaction monitors on storage wrappers",
         "Seed-determined InstallSnapshot request sequences (two source snapshots, 1-3 chunks, any order/duplication/offset, stale/higher terms, crash+restart) against a real node; oracles: installed bytes+label equal a source the sender had, applied/commit never decrease, no restore below applied, no committed entry beyond the label discarded, compaction/discard read-back, replication and vote probes answered as a node with the full log would; directed cases with requests overlapping an installation that waits for an application in flight.",
         "bounded puppet domain; cluster schedules with snapshots are added by the snapshot checks", "5/C11"),
 "C12": ("fault_enumeration", "strace-recorded syscall replay: crash image at every syscall boundary and write byte-prefix, reopened with the real code against a reference model",
         "Enumerates, for seed-determined API sequences on the real persistentLog, every crash point at syscall and byte granularity (process-death model), and checks reopen + read-back against a reference list model plus continued operation. Exhaustive over the crash points of each executed sequence, sampled over sequences.",
         "process death only (completed writes persist); strace log is faithful (self-validated per trace)", "5/C12"),
 "C13": ("fault_enumeration", "strace-recorded syscall replay over SetState and snapshot-storage sequences; NewRaft over every image",
         "Every crash point (syscall boundary / write prefix) of seed-determined SetState and snapshot create/write/close/discard sequences; storages and NewRaft must construct first time, values must be last-completed or in-flight, snapshots never partial.",
         "process death only; rename is atomic", "5/C13"),
 "C19": ("exploration", "round-trip comparison through the real gRPC transport on loopback and the real storages; end-to-end snapshot transfer between two real nodes",
         "Generated boundary and random values for every field of every RPC and every stored record are sent/written and read back through the bundled implementations and compared field by field; snapshot payloads from 0 B to beyond the default message limit are transferred between two real nodes and compared byte for byte.",
         "nil == empty for byte slices; loopback networking", "5/C19"),
 "C20": ("exploration", "Go race detector over repeated stress workloads (simulated network and real gRPC transport)",
         "The harness is built with -race; many goroutines call every public method while background loops, RPC handlers, role changes, snapshots, membership changes and stop/start run; reports are parsed from the detector's log files, classified by whether both accesses are inside the library, and de-duplicated by function pair.",
         "only races on interleavings that actually happened are reported", "5/C20"),
 "C18": ("exploration", "API call sequences under panic capture, fatal hook, hang watchdog and future timers; child process per sequence",
         "Seed-determined bounded sequences of public API calls with valid, boundary and invalid arguments in every node state; oracles: no panic (in the caller or in any library goroutine), no fatal abort, no call blocked beyond the hang bound (with goroutine dumps), every future resolved by its timeout, committed membership change resolves its future.",
         "bounded sequences; real time with generous bounds", "5/C18"),
 "C16": ("exploration", "guarded-window monitor on term writes, leadership starts and leader samples, with measured timing preconditions; single-node probe monitor (answer to the leader, then a vote request microseconds later must be refused)",
         "Directed windows on stable clusters: outsiders (isolated symmetrically or one-way, restarted, removed, lingering candidates, duplicated/late requests; busy and idle clusters) must not make any majority-side node persist a higher term, nor anybody become leader, nor the leader's samples change; all three are exact boundary events. Runs whose measured heartbeat gaps or scheduler stalls break the 'prompt contact' premise are inconclusive.",
         "real time; premise measured per run", "5/C16"),
 "C17": ("exploration", "lease reads judged by the sequence-number staleness oracle, a lapsed-lease rule and a lease-overlap watcher, with measured timing preconditions; single-node probe monitor (every answer that renews the leader's lease must be followed by refusing votes)",
         "Lease-based reads are issued continuously at old leaders across partitions and leader changes; successful ones must cover every write acknowledged before their invocation; reads invoked > 5 leases after the last voter reply must not return data; no node may become leader while another still reports a valid lease. Runs where lease + max round trip + max stall >= election timeout are inconclusive.",
         "real time; clocks of all nodes are one process clock (synchronised by construction)", "5/C17"),
 "C14": ("fault_enumeration", "crash-fork at seed-chosen storage-operation boundaries in cluster runs, restart over the image, all safety oracles + bounded catch-up",
         "Enumerates crash-point classes (9 storage operations x before/after, torn appends, asynchronous kills) across roles in fault-injected cluster runs and counts the (class x position x role) cells reached; every restart must succeed, no fatal abort may follow, the safety oracles must stay silent and the node must catch up within step bounds.",
         "crash = process death at storage-operation boundaries (directory image copied while all storage operations of the node are quiesced)", "5/C14"),
 "C15": ("exploration", "step-counted bounded-progress monitor after the heal of every fault schedule",
         "After faults stop: leader within a bound of candidacy rounds and stable for 20 heartbeat rounds, every member caught up within 300 exchanges, fresh write within 100 exchanges; violations carry the repeating exchange pattern of the stuck link as witness.",
         "liveness restated as bounded progress; bounds far above what a correct implementation needs here", "5/C15"),
 "C09": ("exploration", "safety oracles of C01/C02/C07 plus configuration, election-quorum, commit-majority and future monitors under membership-change workloads",
         "Random and choreographed membership request schedules with faults; the same online oracles as C01/C02/C07 plus membership-specific ones (see rule in the evidence).",
         "which configuration a leader used for a particular commit is only observable as a set of candidates; the commit-majority clause accepts any of them", "5/C09"),
}

not_yet = {
}

m = {
 "version": 1,
 "setup_cmd": "cd /verif && ./setup.sh",
 "hooks": {
   "guard": "verif",
   "enable": "go build -tags verif (harness module /verif/harness with replace github.com/jmsadair/raft => /repo)",
   "baseline_off_cmd": BASE_OFF,
   "source_commits": ["455b165"],
   "add_only": True,
 },
 "engines": [
   {"name": "vcheck/vrun cluster harness", "path": "harness", "serves_properties": sorted(checks.keys()),
    "kind_free_text": "Go: real raft nodes on a simulated network with monitoring wrappers around the real file-backed storage; one child process per scenario; online + offline oracles"},
 ],
 "checks": [],
 "not_applicable": [],
 "notes": "All checks rebuild the harness against /repo's working tree (./check). Known findings: /verif/known_findings.json.",
}
for cid in sorted(checks):
    level, tech, text, note, ref = checks[cid]
    m["checks"].append({
      "property_id": cid,
      "quick_cmd": f"./check {cid} quick",
      "thorough_cmd": f"./check {cid} thorough",
      "evidence_file": f"evidence/{cid}.json",
      "replay_cmd_template": "./check --replay {path}",
      "engine": "vcheck/vrun cluster harness",
      "level_claimed": {"category": level, "text": text, "design_ref": "DESIGN.md section " + ref},
      "level_note": note,
      "technique": tech,
    })
import sys
all_ids = [json.loads(l)["id"] for l in open("/verif/properties.jsonl")]
for pid in all_ids:
    if pid not in checks:
        m["not_applicable"].append({"property_id": pid, "reason": not_yet.get(pid, "check not built yet in this revision (runtime-monitoring design in DESIGN.md section 5); not claimed until it is")})
json.dump(m, open("/verif/MANIFEST.json", "w"), indent=1)
print("wrote MANIFEST.json with", len(m["checks"]), "checks;", len(m["not_applicable"]), "not claimed")
