#!/opt/veriftools/pyvenv/bin/python
import json, jsonschema, glob, sys
jsonschema.validate(json.load(open('/verif/MANIFEST.json')), json.load(open('/root/.vp/MANIFEST.schema.json')))
m = json.load(open('/verif/MANIFEST.json'))
es = json.load(open('/root/.vp/EVIDENCE.schema.json'))
bad = 0
for c in m['checks']:
    try:
        jsonschema.validate(json.load(open('/verif/' + c['evidence_file'])), es)
    except Exception as e:
        bad += 1
        print('EVIDENCE INVALID', c['property_id'], str(e)[:300])
ids = [json.loads(l)['id'] for l in open('/verif/properties.jsonl')]
claimed = {c['property_id'] for c in m['checks']}
na = {c['property_id'] for c in m.get('not_applicable', [])}
assert claimed | na == set(ids) and not (claimed & na), (claimed, na)
print('manifest valid;', len(claimed), 'claimed,', len(na), 'not claimed; evidence invalid:', bad)
